#!/usr/bin/env python3
"""tools/store_seed.py <ID> <confirm-log> <caught-by comma list> [<missed-by comma list>] [note]
Copies a confirmed seeded change from /tmp/seeded-out/<ID>/ to /verif/seeded/<ID>/ and writes meta.json."""
import json, os, shutil, sys
sid, log, caught = sys.argv[1], sys.argv[2], sys.argv[3]
missed = sys.argv[4] if len(sys.argv) > 4 else ""
note = sys.argv[5] if len(sys.argv) > 5 else ""
src = f"/tmp/seeded-out/{sid}"
dst = f"/verif/seeded/{sid}"
os.makedirs(dst, exist_ok=True)
shutil.copy(f"{src}/patch.diff", f"{dst}/patch.diff")
shutil.copy(f"{src}/demo.rs", f"{dst}/demo.rs")
agent = json.load(open(f"{src}/meta.json"))
conf = [l.strip() for l in open(log) if l.startswith(f"CONFIRM {sid} ")]
meta = {
    "property": agent.get("property", sid[:3]),
    "origin": "fresh sub-agent given only the property text and a scratch worktree of /repo (nothing from /verif)",
    "summary": agent.get("summary"),
    "needs_to_manifest": agent.get("needs_to_manifest"),
    "files_changed": agent.get("files_changed"),
    "demo_location": agent.get("demo_location", "akd/tests/demo.rs"),
    "agent_tests_run": agent.get("tests_run"),
    "confirmed_by_me": {
        "how": "tools/confirm_seed.sh %s --suite in the scratch worktree: demo without patch, demo with patch, full nextest suite with patch (failures re-run alone)" % sid,
        "results": conf,
    },
    "checks": {
        "how": "tools/try_patch.sh seeded/%s/patch.diff <ID...> (git -C /repo apply, ./check <ID> quick, git -C /repo checkout -- .)" % sid,
        "caught_by": [c for c in caught.split(",") if c],
        "not_caught_by_tried": [c for c in missed.split(",") if c],
        "note": note,
    },
}
json.dump(meta, open(f"{dst}/meta.json", "w"), indent=1)
print("stored", dst)
