//! C10 — a publish that returns an error leaves the directory exactly as it was.
//! Fault enumeration at the `Database` boundary: every storage operation index k of the victim
//! publish is made to fail (one-shot and sticky), uncached / cached, sequential / parallel insertion.

use crate::common::*;
use crate::gen::{batch_json, gen_history, history_json, Flavor, GenOpts};
use crate::model::{Applied, Batch, Model};
use crate::mon::*;
use crate::rng::Rng;
use crate::with_cfg;
use crate::world::*;
use crate::xdb::{fail_at, OpKind, OpRec, XDb};
use serde_json::json;

pub fn run(ctx: &Ctx) -> i32 {
    let mon = Mon::new();
    let n = ctx.tier.pick(24, 300);
    par_cases(ctx, &mon, "case", n, |cc, rng, l| {
        let cfg = if rng.chance(1, 2) { Cfg::Wa } else { Cfg::Exp };
        with_cfg!(cfg, TC, { run_case::<TC>(ctx, cc, rng, l) })
    });
    finish(
        ctx,
        &mon,
        Spec::new(
            "fault_enumeration",
            "for each case (prefix history of 0-6 epochs, victim publish of shape inserts/updates/mixed/with re-submissions): a dry run counts the victim's storage operations N; then for EVERY k in 1..N x {one-shot, sticky} x {Connection, Other} x {uncached, cached(warm)} x {sequential, parallel insertion on current-thread and multi-thread runtimes} the k-th operation fails; after the call and after the runtime quiesced the SAME instance must: have returned Err, have no open transaction, report the previous (epoch, hash), serve verifying lookups/histories/audit for the previous state; then the retry must succeed and equal a fault-free twin, and a follow-up publish + lookups must equal the twin. distinct = (victim shape, failed op kind, phase, cache, parallelism); non-trivial = fault was reached",
        )
        .assume("storage operations fail as a whole (no partial batch writes) — partial commits are C11's domain")
        .need("injected_runs", ctx.tier.pick(1500, 20000))
        .need("faults_reached", ctx.tier.pick(1500, 20000))
        .need("commit_write_failures", ctx.tier.pick(40, 500))
        .need("retries_matching_twin", ctx.tier.pick(1000, 15000)),
    )
}

#[derive(Clone, Copy, Debug, PartialEq, Eq)]
enum Rt {
    Current,
    Multi,
}

struct Variant {
    cache: CacheOpt,
    par: AzksParallelismConfig,
    rt: Rt,
}

fn pname(p: &AzksParallelismConfig) -> &'static str {
    match p.insertion {
        AzksParallelismOption::Disabled => "seq",
        _ => "par",
    }
}

struct Twin {
    after_victim: EpochHash,
    after_followup: EpochHash,
    after_alt: EpochHash,
    after_alt_followup: EpochHash,
    victim_log: Vec<OpRec>,
    n_ops: u64,
    commit_idx: Option<u64>,
}

async fn open<TC: Configuration>(db: XDb, v: &Variant) -> Result<(StorageManager<XDb>, Dir<TC>), AkdError> {
    let mgr = v.cache.manager(db);
    let dir = Dir::<TC>::new(mgr.clone(), KeyVrf::hard_coded(), v.par).await?;
    Ok((mgr, dir))
}

/// warm the cache the way a long-running instance would have it
async fn warm<TC: Configuration>(dir: &Dir<TC>, model: &Model) {
    let _ = dir.get_epoch_hash().await;
    for l in model.labels().iter().take(4) {
        let _ = dir.lookup(AkdLabel(l.clone())).await;
    }
}

async fn quiesce() {
    for _ in 0..300 {
        tokio::task::yield_now().await;
    }
    tokio::time::sleep(std::time::Duration::from_millis(1)).await;
    for _ in 0..50 {
        tokio::task::yield_now().await;
    }
}

fn run_case<TC: Configuration>(ctx: &Ctx, cc: &CaseCtx, rng: &mut Rng, l: &mut Local) {
    let cfg = cfg_of::<TC>();
    // ---- prefix history + victim + follow-up batch
    let prefix_epochs = rng.below(7) as usize;
    let opts = GenOpts {
        universe: rng.range(3, 10) as usize,
        batches: prefix_epochs,
        max_batch: rng.range(1, 6) as usize,
        flavor: Flavor::Mixed,
        p_resubmit: 100,
        p_dup_batch: 0,
        p_empty_batch: 0,
        p_empty_value: 20,
        allow_big: false,
    };
    let hist = gen_history(rng, &opts);
    let mut model = Model::new();
    for b in &hist.batches {
        model.apply(b);
    }
    let shape = *rng.pick(&["inserts", "updates", "mixed", "mixed+resubmit", "many"]);
    let mut victim: Batch = vec![];
    let existing = model.labels();
    let want_n = if shape == "many" { rng.range(8, 24) } else { rng.range(1, 4) } as usize;
    let mut fresh_i = 0;
    while victim.len() < want_n {
        let use_existing = match shape {
            "inserts" => false,
            "updates" => !existing.is_empty(),
            _ => !existing.is_empty() && rng.chance(1, 2),
        };
        let lab = if use_existing {
            rng.pick(&existing).clone()
        } else {
            fresh_i += 1;
            format!("new-{}-{}", cc.idx, fresh_i).into_bytes()
        };
        if victim.iter().any(|(x, _)| *x == lab) {
            if use_existing && victim.len() >= existing.len() {
                fresh_i += 1;
                victim.push((format!("new-{}-{}", cc.idx, fresh_i).into_bytes(), b"nv".to_vec()));
            }
            continue;
        }
        let val = if shape == "mixed+resubmit" && use_existing && rng.chance(1, 2) {
            model.latest(&lab, model.epoch).unwrap().value.clone()
        } else {
            format!("victim-{}", victim.len()).into_bytes()
        };
        victim.push((lab, val));
    }
    let mut probe = model.clone();
    if !matches!(probe.apply(&victim), Applied::Epoch(..)) {
        // victim would be a no-op: make it effective
        victim.push((format!("new-{}-x", cc.idx).into_bytes(), b"nv".to_vec()));
    }
    let followup: Batch = vec![(victim[0].0.clone(), b"after-1".to_vec()), (format!("fu-{}", cc.idx).into_bytes(), b"after-2".to_vec())];
    // a DIFFERENT later publish (the property speaks of "a later publish", not only of a retry): part of the
    // victim's labels with other values, plus a label of its own
    let mut alt: Batch = victim.iter().filter(|_| rng.chance(1, 2)).map(|(l, _)| (l.clone(), b"alt-value".to_vec())).collect();
    alt.push((format!("alt-{}", cc.idx).into_bytes(), b"alt-new".to_vec()));
    let mut model_retry = model.clone();
    model_retry.apply(&victim);
    model_retry.apply(&followup);
    let mut model_alt = model.clone();
    model_alt.apply(&alt);
    model_alt.apply(&followup);

    // ---- build the prefix state once (fault free)
    let base_db = block_on(async {
        let db = XDb::new();
        let v = Variant { cache: CacheOpt::None, par: AzksParallelismConfig::disabled(), rt: Rt::Current };
        let (_m, dir) = open::<TC>(db.clone(), &v).await.expect("open");
        for b in &hist.batches {
            dir.publish(akd_batch(b)).await.expect("prefix publish");
        }
        db.inner.clone()
    });
    let prev_epoch = model.epoch;

    let mut variants = vec![
        Variant { cache: CacheOpt::None, par: AzksParallelismConfig::disabled(), rt: Rt::Current },
        Variant { cache: CacheOpt::Default, par: AzksParallelismConfig::disabled(), rt: Rt::Current },
    ];
    let static_n = *rng.pick(&[2u32, 8]);
    let parcfg = AzksParallelismConfig { insertion: AzksParallelismOption::Static(static_n), preload: AzksParallelismOption::Static(2) };
    match cc.idx % 3 {
        0 => variants.push(Variant { cache: CacheOpt::None, par: parcfg, rt: Rt::Current }),
        1 => variants.push(Variant { cache: CacheOpt::Default, par: AzksParallelismConfig::default(), rt: Rt::Current }),
        _ => variants.push(Variant { cache: CacheOpt::None, par: parcfg, rt: Rt::Multi }),
    }
    if ctx.tier == Tier::Thorough {
        variants.push(Variant { cache: CacheOpt::Default, par: parcfg, rt: Rt::Multi });
    }

    for v in &variants {
        let multi_rt = if v.rt == Rt::Multi {
            Some(tokio::runtime::Builder::new_multi_thread().worker_threads(3).enable_time().build().expect("rt"))
        } else {
            None
        };
        let run = |f: std::pin::Pin<Box<dyn std::future::Future<Output = Local> + Send>>| -> Local {
            match &multi_rt {
                Some(rt) => rt.block_on(f),
                None => block_on(f),
            }
        };
        // ---- dry run = the fault-free twin
        let twin = {
            let base = base_db.clone();
            let (victim, followup, model, alt2) = (victim.clone(), followup.clone(), model.clone(), alt.clone());
            let v2 = Variant { cache: v.cache, par: v.par, rt: v.rt };
            let fut = async move {
                let db = XDb::over(deep_copy(&base).await);
                let (_m, dir) = open::<TC>(db.clone(), &v2).await.expect("open");
                warm::<TC>(&dir, &model).await;
                db.ctl.reset_counters();
                db.ctl.set_log(true);
                let a = dir.publish(akd_batch(&victim)).await;
                let log = db.ctl.take_log();
                db.ctl.set_log(false);
                let n_ops = db.ctl.n_ops();
                let b = dir.publish(akd_batch(&followup)).await;
                // the twin of the "different later publish" variant: it never sees the victim
                let db2 = XDb::over(deep_copy(&base).await);
                let (_m2, dir2) = open::<TC>(db2.clone(), &v2).await.expect("open");
                let c = dir2.publish(akd_batch(&alt2)).await;
                let d = dir2.publish(akd_batch(&followup)).await;
                (a, b, c, d, log, n_ops)
            };
            let (a, b, c, d, log, n_ops) = match &multi_rt {
                Some(rt) => rt.block_on(fut),
                None => block_on(fut),
            };
            match (a, b, c, d) {
                (Ok(a), Ok(b), Ok(c), Ok(d)) => {
                    let commit_idx = log.iter().find(|r| r.info.kind == OpKind::BatchSetCommit).map(|r| r.info.idx);
                    Twin { after_victim: a, after_followup: b, after_alt: c, after_alt_followup: d, victim_log: log, n_ops, commit_idx }
                }
                _ => {
                    l.inconclusive("fault-free twin failed".to_string());
                    return;
                }
            }
        };
        l.max("max_ops_in_victim_publish", twin.n_ops);
        let repeats = if v.rt == Rt::Multi { 2 } else { 1 };
        for k in 1..=twin.n_ops {
            for sticky in [false, true] {
                for rep in 0..repeats {
                    let connection = (k + rep + sticky as u64) % 2 == 0;
                    let base = base_db.clone();
                    let (victim2, followup2, model2) = (victim.clone(), followup.clone(), model.clone());
                    let v2 = Variant { cache: v.cache, par: v.par, rt: v.rt };
                    // one-shot runs alternate between "retry the same batch" and "a different later publish";
                    // sticky runs use the other one, so every k sees both
                    let use_alt = (k + sticky as u64 + rep) % 2 == 1;
                    let (later, model_after, twin_av, twin_af) = if use_alt {
                        (alt.clone(), model_alt.clone(), twin.after_alt.clone(), twin.after_alt_followup.clone())
                    } else {
                        (victim.clone(), model_retry.clone(), twin.after_victim.clone(), twin.after_followup.clone())
                    };
                    let dry_kind = twin.victim_log.iter().find(|r| r.info.idx == k).map(|r| r.info.kind);
                    let phase = match twin.commit_idx {
                        Some(c) if k == c => "commit-write",
                        Some(c) if k > c => "post-commit-read",
                        _ => "pre-commit-read",
                    };
                    let sig_base = format!("{phase}/{}/{}", if v.cache == CacheOpt::None { "uncached" } else { "cached" }, pname(&v.par));
                    let detail = json!({"cfg": cfg.name(), "cache": v.cache.name(), "par": par_name(&v.par), "runtime": format!("{:?}", v.rt),
                        "fault_at_op": k, "of_ops": twin.n_ops, "sticky": sticky, "error_kind": if connection { "Connection" } else { "Other" },
                        "op_kind_in_dry_run": dry_kind.map(|x| x.name()), "phase": phase,
                        "victim": batch_json(&victim), "victim_shape": shape, "prefix": history_json(&hist.batches)});
                    let known = l.known.clone();
                    let case_id = l.case_id.clone();
                    let fut = async move {
                        let mut l = Local::with_known(known);
                        l.case_id = case_id;
                        inject_one::<TC>(&mut l, base, &v2, &model2, prev_epoch, &victim2, &followup2, k, sticky, connection, &twin_av, &twin_af, &sig_base, detail, phase, dry_kind, shape, &later, use_alt, &model_after).await;
                        l
                    };
                    let sub = run(Box::pin(fut));
                    merge_local(l, sub);
                }
            }
        }
    }
    l.sample(json!({"case": cc.id, "cfg": cfg.name(), "prefix_epochs": prev_epoch, "victim_shape": shape, "victim": batch_json(&victim)}));
}

fn merge_local(into: &mut Local, from: Local) {
    for (k, v) in from.counters {
        if k.starts_with("max_") {
            into.max(&k, v);
        } else {
            into.count(&k, v);
        }
    }
    into.distinct.extend(from.distinct);
    into.nontrivial.extend(from.nontrivial);
    into.evaluations += from.evaluations;
    into.violations.extend(from.violations);
    into.inconclusive.extend(from.inconclusive);
    for (k, v) in from.known_counts {
        *into.known_counts.entry(k).or_insert(0) += v;
    }
}

#[allow(clippy::too_many_arguments)]
async fn inject_one<TC: Configuration>(
    l: &mut Local,
    base: AsyncInMemoryDatabase,
    v: &Variant,
    model: &Model,
    prev_epoch: u64,
    victim: &Batch,
    followup: &Batch,
    k: u64,
    sticky: bool,
    connection: bool,
    twin_after_victim: &EpochHash,
    twin_after_followup: &EpochHash,
    sig_base: &str,
    detail: serde_json::Value,
    phase: &str,
    dry_kind: Option<OpKind>,
    shape: &str,
    later: &Batch,
    later_is_different: bool,
    model_after: &Model,
) {
    l.eval(1);
    l.count("injected_runs", 1);
    let db = XDb::over(deep_copy(&base).await);
    let Ok((mgr, dir)) = open::<TC>(db.clone(), v).await else {
        l.inconclusive("open failed");
        return;
    };
    let pk = dir.get_public_key().await.unwrap().as_bytes().to_vec();
    warm::<TC>(&dir, model).await;
    let before = match dir.get_epoch_hash().await {
        Ok(x) => x,
        Err(e) => {
            l.inconclusive(format!("get_epoch_hash before the victim failed: {e}"));
            return;
        }
    };
    db.ctl.reset_counters();
    db.ctl.set_fault(Some(fail_at(k, sticky, connection)));
    let res = dir.publish(akd_batch(victim)).await;
    let injected = db.ctl.injected.load(std::sync::atomic::Ordering::SeqCst);
    // the call has returned: sticky faults end here
    db.ctl.set_fault(None);
    let writes_at_return = db.ctl.n_writes();
    quiesce().await;
    let late_writes = db.ctl.n_writes() - writes_at_return;
    if late_writes > 0 {
        l.count("runs_with_database_writes_after_the_call_returned_diagnostic", 1);
    }
    if injected == 0 {
        l.count("fault_not_reached", 1);
        return;
    }
    l.count("faults_reached", 1);
    if phase == "commit-write" {
        l.count("commit_write_failures", 1);
    }
    let key = format!("{shape}/{}/{phase}/{}/{}", dry_kind.map(|x| x.name()).unwrap_or("?"), v.cache.name(), pname(&v.par));
    l.case(key.as_bytes(), true);
    let mut fail = |l: &mut Local, observable: &str, msg: String| {
        let mut d = detail.clone();
        d["observable"] = json!(observable);
        d["database_writes_after_return"] = json!(late_writes);
        l.violation(format!("C10:{sig_base}/{observable}"), msg, d);
    };
    // (a) the call returns an error
    if let Ok(eh) = &res {
        fail(l, "returned-ok", format!("storage op {k} failed but publish returned Ok(({}, {}))", eh.0, hx(&eh.1)));
        return;
    }
    // (b) no transaction left open
    if mgr.is_transaction_active() {
        fail(l, "transaction-left-open", "a transaction is still open after the failed publish returned".into());
        return;
    }
    // (c) same epoch and hash as before
    match dir.get_epoch_hash().await {
        Ok(eh) if eh == before => {}
        Ok(eh) => {
            fail(l, "epoch-hash-changed", format!("after the failed publish the instance reports ({}, {}) instead of ({}, {})", eh.0, hx(&eh.1), before.0, hx(&before.1)));
            return;
        }
        Err(e) => {
            fail(l, "epoch-hash-unreadable", format!("get_epoch_hash fails after the failed publish: {e}"));
            return;
        }
    }
    // (d) proofs for the previous state only
    for label in model.labels() {
        let want = model.latest(&label, prev_epoch).cloned();
        match dir.lookup(AkdLabel(label.clone())).await {
            Ok((p, eh)) => {
                let ok = eh == before
                    && matches!((akd::client::lookup_verify::<TC>(&pk, eh.1, eh.0, AkdLabel(label.clone()), p), &want), (Ok(vr), Some(w)) if ver_matches(w, &vr));
                if !ok {
                    fail(l, "lookup-diverges", format!("lookup of {} after the failed publish does not verify to the previous state", hx(&label)));
                    return;
                }
            }
            Err(e) => {
                fail(l, "lookup-fails", format!("lookup of {} fails after the failed publish: {e}", hx(&label)));
                return;
            }
        }
        match dir.key_history(&AkdLabel(label.clone()), HistoryParams::Complete).await {
            Ok((p, eh)) => {
                let wanth = model.history(&label, prev_epoch);
                let ok = eh == before
                    && match akd::client::key_history_verify::<TC>(&pk, eh.1, eh.0, AkdLabel(label.clone()), p, HistoryVerificationParams::default()) {
                        Ok(rs) => rs.len() == wanth.len() && rs.iter().zip(wanth.iter()).all(|(r, w)| ver_matches(w, r)),
                        Err(_) => false,
                    };
                if !ok {
                    fail(l, "history-diverges", format!("history of {} after the failed publish does not verify to the previous state", hx(&label)));
                    return;
                }
            }
            Err(e) => {
                fail(l, "history-fails", format!("key_history of {} fails after the failed publish: {e}", hx(&label)));
                return;
            }
        }
    }
    // labels first published by the victim must be invisible
    for (lab, _) in victim {
        if model.latest(lab, prev_epoch).is_none() && dir.lookup(AkdLabel(lab.clone())).await.is_ok() {
            fail(l, "unpublished-value-visible", format!("label {} of the failed publish is served", hx(lab)));
            return;
        }
    }
    if prev_epoch >= 1 {
        match dir.audit(0, prev_epoch).await {
            Ok(_) => {}
            Err(e) => {
                fail(l, "audit-fails", format!("audit(0,{prev_epoch}) fails after the failed publish: {e}"));
                return;
            }
        }
    }
    l.count("post_failure_state_checks_passed", 1);
    // (e) the retry succeeds and equals the twin
    let later_name = if later_is_different { "later-publish" } else { "retry" };
    if later_is_different {
        l.count("different_later_publishes", 1);
    }
    match dir.publish(akd_batch(later)).await {
        Ok(eh) if eh == *twin_after_victim => l.count("retries_matching_twin", 1),
        Ok(eh) => {
            fail(l, &format!("{later_name}-diverges-from-twin"), format!("{later_name} returned ({}, {}) but a twin that never saw the failed call ended at ({}, {})", eh.0, hx(&eh.1), twin_after_victim.0, hx(&twin_after_victim.1)));
            return;
        }
        Err(e) => {
            fail(l, &format!("{later_name}-failed"), format!("the {later_name} after the failed call (faults off) failed: {e}"));
            return;
        }
    }
    // (f) further operations equal the twin
    match dir.publish(akd_batch(followup)).await {
        Ok(eh) if eh == *twin_after_followup => {}
        Ok(eh) => {
            fail(l, "followup-diverges-from-twin", format!("follow-up publish returned ({}, {}) but the twin ({}, {})", eh.0, hx(&eh.1), twin_after_followup.0, hx(&twin_after_followup.1)));
            return;
        }
        Err(e) => {
            fail(l, "followup-failed", format!("follow-up publish failed: {e}"));
            return;
        }
    }
    let fe = model_after.epoch;
    for lab in model_after.labels() {
        let want = model_after.latest(&lab, fe).cloned().unwrap();
        match dir.lookup(AkdLabel(lab.clone())).await {
            Ok((p, eh)) if eh == *twin_after_followup => match akd::client::lookup_verify::<TC>(&pk, eh.1, eh.0, AkdLabel(lab.clone()), p) {
                Ok(vr) if ver_matches(&want, &vr) => {}
                _ => {
                    fail(l, "recovered-lookup-diverges", format!("after recovery the lookup of {} does not verify to the state a never-failed directory has", hx(&lab)));
                    return;
                }
            },
            _ => {
                fail(l, "recovered-lookup-diverges", format!("after recovery the lookup of {} fails or names another epoch hash than the twin", hx(&lab)));
                return;
            }
        }
        let wanth = model_after.history(&lab, fe);
        match dir.key_history(&AkdLabel(lab.clone()), HistoryParams::Complete).await {
            Ok((p, eh)) => {
                let ok = eh == *twin_after_followup
                    && match akd::client::key_history_verify::<TC>(&pk, eh.1, eh.0, AkdLabel(lab.clone()), p, HistoryVerificationParams::default()) {
                        Ok(rs) => rs.len() == wanth.len() && rs.iter().zip(wanth.iter()).all(|(r, w)| ver_matches(w, r)),
                        Err(_) => false,
                    };
                if !ok {
                    fail(l, "recovered-history-diverges", format!("after recovery the history of {} does not verify to the state a never-failed directory has", hx(&lab)));
                    return;
                }
            }
            Err(e) => {
                fail(l, "recovered-history-fails", format!("after recovery key_history of {} fails: {e}", hx(&lab)));
                return;
            }
        }
    }
    match dir.audit(0, twin_after_followup.0).await {
        Ok(_) => l.count("full_recovery_confirmed", 1),
        Err(e) => fail(l, "followup-audit-fails", format!("audit over the whole history fails after recovery: {e}")),
    }
}
