//! An honest directory over the instrumented database, next to the reference model.

use crate::common::*;
use crate::model::{Applied, Batch, LeafSpec, Model, Ver};
use crate::refhash::{self, RLabel};
use crate::xdb::XDb;
use std::collections::HashMap;
use std::time::Duration;

#[derive(Clone, Copy, Debug, PartialEq, Eq, Hash)]
pub enum CacheOpt {
    None,
    Default,
    /// 2 ms item lifetime (1 ms would silently become the 30 s default)
    ShortLife,
    /// 512-byte memory limit with a 2 ms cleaning period
    TinyMem,
}

impl CacheOpt {
    pub fn manager(&self, db: XDb) -> StorageManager<XDb> {
        match self {
            CacheOpt::None => StorageManager::new_no_cache(db),
            CacheOpt::Default => StorageManager::new(db, None, None, None),
            CacheOpt::ShortLife => StorageManager::new(db, Some(Duration::from_millis(2)), None, Some(Duration::from_millis(2))),
            CacheOpt::TinyMem => StorageManager::new(db, None, Some(512), Some(Duration::from_millis(2))),
        }
    }
    pub fn name(&self) -> &'static str {
        match self {
            CacheOpt::None => "nocache",
            CacheOpt::Default => "cache",
            CacheOpt::ShortLife => "cache2ms",
            CacheOpt::TinyMem => "cache512B",
        }
    }
}

pub fn par_name(p: &AzksParallelismConfig) -> String {
    fn o(x: &AzksParallelismOption) -> String {
        match x {
            AzksParallelismOption::Disabled => "off".into(),
            AzksParallelismOption::Static(n) => format!("s{n}"),
            AzksParallelismOption::AvailableOr(n) => format!("avail{n}"),
        }
    }
    format!("ins={},pre={}", o(&p.insertion), o(&p.preload))
}

pub type Dir<TC> = Directory<TC, XDb, KeyVrf>;
pub type RoDir<TC> = ReadOnlyDirectory<TC, XDb, KeyVrf>;

pub struct World<TC: Configuration> {
    pub cfg: Cfg,
    pub db: XDb,
    pub mgr: StorageManager<XDb>,
    pub dir: Dir<TC>,
    pub vrf: KeyVrf,
    pub pk: Vec<u8>,
    pub model: Model,
    /// published[e] = root hash returned for epoch e (index 0 = empty directory)
    pub published: Vec<Digest>,
    pub cache: CacheOpt,
    pub par: AzksParallelismConfig,
    label_cache: HashMap<(Vec<u8>, bool, u64), NodeLabel>,
}

pub fn cfg_of<TC: Configuration>() -> Cfg {
    // the two configurations differ in the hash of the empty string's domain separation
    if TC::empty_root_value().0 == [0u8; 32] {
        Cfg::Exp
    } else {
        Cfg::Wa
    }
}

pub fn to_rlabel(l: &NodeLabel) -> RLabel {
    RLabel {
        val: l.label_val,
        len: l.label_len,
    }
}

pub fn akd_batch(b: &Batch) -> Vec<(AkdLabel, AkdValue)> {
    b.iter().map(|(l, v)| (AkdLabel(l.clone()), AkdValue(v.clone()))).collect()
}

impl<TC: Configuration> World<TC> {
    pub async fn new(cache: CacheOpt, par: AzksParallelismConfig, vrf: KeyVrf) -> Result<Self, AkdError> {
        Self::over(XDb::new(), cache, par, vrf).await
    }

    pub async fn over(db: XDb, cache: CacheOpt, par: AzksParallelismConfig, vrf: KeyVrf) -> Result<Self, AkdError> {
        let mgr = cache.manager(db.clone());
        let dir = Dir::<TC>::new(mgr.clone(), vrf.clone(), par).await?;
        let pk = dir.get_public_key().await?.as_bytes().to_vec();
        let eh = dir.get_epoch_hash().await?;
        Ok(World {
            cfg: cfg_of::<TC>(),
            db,
            mgr,
            dir,
            vrf,
            pk,
            model: Model::new(),
            published: vec![eh.1],
            cache,
            par,
            label_cache: HashMap::new(),
        })
    }

    /// Re-create manager (incl. cache) and directory over the same storage ("restart").
    pub async fn restart(&mut self) -> Result<(), AkdError> {
        let mgr = self.cache.manager(self.db.clone());
        self.dir = Dir::<TC>::new(mgr.clone(), self.vrf.clone(), self.par).await?;
        self.mgr = mgr;
        Ok(())
    }

    pub async fn read_only(&self, cache: CacheOpt) -> Result<RoDir<TC>, AkdError> {
        RoDir::<TC>::new(cache.manager(self.db.clone()), self.vrf.clone(), self.par).await
    }

    pub async fn node_label(&mut self, label: &[u8], fresh: bool, version: u64) -> NodeLabel {
        let key = (label.to_vec(), fresh, version);
        if let Some(l) = self.label_cache.get(&key) {
            return *l;
        }
        let f = if fresh { VersionFreshness::Fresh } else { VersionFreshness::Stale };
        let l = self
            .vrf
            .get_node_label::<TC>(&AkdLabel(label.to_vec()), f, version)
            .await
            .expect("vrf");
        self.label_cache.insert(key, l);
        l
    }

    /// reference leaf (node label, leaf hash) for a model leaf
    pub async fn ref_leaf(&mut self, spec: &LeafSpec) -> (RLabel, refhash::D) {
        let nl = to_rlabel(&self.node_label(&spec.label, spec.fresh, spec.version).await);
        let ck = refhash::commitment_key(self.cfg, &self.vrf.0);
        let commitment = match &spec.value {
            Some(v) => refhash::fresh_commitment(self.cfg, &ck, &nl, spec.version, v),
            None => refhash::stale_commitment(self.cfg),
        };
        (nl, refhash::leaf_hash(self.cfg, &commitment, spec.epoch))
    }

    /// reference (root hash, node count) of the model at `epoch`
    pub async fn ref_root(&mut self, epoch: u64) -> (Digest, u64) {
        let specs = self.model.leaves(epoch);
        let mut leaves = Vec::with_capacity(specs.len());
        for s in &specs {
            leaves.push(self.ref_leaf(s).await);
        }
        let root = refhash::root_hash(self.cfg, &mut leaves).expect("model leaf labels collide");
        (root, refhash::node_count(&leaves))
    }

    /// publish through the real directory; the model is advanced only by the caller's oracle
    pub async fn publish_raw(&self, batch: &Batch) -> Result<EpochHash, AkdError> {
        self.dir.publish(akd_batch(batch)).await
    }

    /// publish, advance the model, record the published hash.  Returns what the model says
    /// happened and what the directory returned.
    pub async fn publish(&mut self, batch: &Batch) -> (Applied, Result<EpochHash, AkdError>) {
        let r = self.dir.publish(akd_batch(batch)).await;
        let applied = self.model.apply(batch);
        if let (Applied::Epoch(e, _), Ok(eh)) = (&applied, &r) {
            if eh.0 == *e && self.published.len() as u64 == *e {
                self.published.push(eh.1);
            }
        }
        (applied, r)
    }

    pub fn verify_lookup(&self, eh: &EpochHash, label: &[u8], proof: LookupProof) -> Result<VerifyResult, akd::verify::VerificationError> {
        akd::client::lookup_verify::<TC>(&self.pk, eh.1, eh.0, AkdLabel(label.to_vec()), proof)
    }

    pub fn verify_history(
        &self,
        eh: &EpochHash,
        label: &[u8],
        proof: HistoryProof,
        params: HistoryVerificationParams,
    ) -> Result<Vec<VerifyResult>, akd::verify::VerificationError> {
        akd::client::key_history_verify::<TC>(&self.pk, eh.1, eh.0, AkdLabel(label.to_vec()), proof, params)
    }
}

pub fn ver_matches(v: &Ver, r: &VerifyResult) -> bool {
    v.version == r.version && v.epoch == r.epoch && v.value == r.value.0
}

pub fn ver_json(v: &Ver) -> serde_json::Value {
    serde_json::json!({"version": v.version, "epoch": v.epoch, "value": hx(&v.value)})
}

pub fn vr_json(v: &VerifyResult) -> serde_json::Value {
    serde_json::json!({"version": v.version, "epoch": v.epoch, "value": hx(&v.value.0)})
}
