pub mod histcase;
pub mod c01;
