#!/usr/bin/env python3
"""tools/seed_matrix.py — prints the markdown table 'seeded change x checks' from seeded/*/meta.json."""
import glob, json, os
rows = []
for d in sorted(glob.glob(os.path.join(os.path.dirname(__file__), "..", "seeded", "*"))):
    mp = os.path.join(d, "meta.json")
    if not os.path.exists(mp):
        continue
    m = json.load(open(mp))
    c = m.get("checks", {})
    files = ", ".join(os.path.basename(f) for f in (m.get("files_changed") or []))
    needs = (m.get("needs_to_manifest") or "").replace("\n", " ").replace("|", "/")
    if len(needs) > 230:
        needs = needs[:227] + "..."
    note = (c.get("note") or "").replace("\n", " ").replace("|", "/")
    if len(note) > 260:
        note = note[:257] + "..."
    rows.append((os.path.basename(d), m.get("property"), files, needs, ", ".join(c.get("caught_by", [])) or "—", ", ".join(c.get("not_caught_by_tried", [])) or "—", note))
print("| seeded change | breaks | file(s) | needs, to manifest | caught by (quick) | tried, silent | how / what was strengthened |")
print("|---|---|---|---|---|---|---|")
for r in rows:
    print("| `seeded/%s` | %s | %s | %s | **%s** | %s | %s |" % r)
