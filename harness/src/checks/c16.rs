//! C16 — the object cache never changes what a read returns.

use crate::common::*;
use crate::mon::*;
use crate::rng::Rng;
use crate::sched::*;
use crate::xdb::{OpInfo, XDb};
use serde_json::{json, Value};
use std::collections::BTreeMap;
use std::sync::atomic::{AtomicBool, AtomicU64, Ordering};
use std::sync::{Arc, Mutex};
use std::time::Duration;

pub fn run(ctx: &Ctx) -> i32 {
    let mon = Mon::new();
    if ctx.mode.as_deref() == Some("stress") {
        par_cases(ctx, &mon, "conc", ctx.tier.pick(3, 8), |cc, rng, l| {
            concurrent(ctx, cc, rng, l);
        });
        return finish(ctx, &mon, Spec::new("exploration", "multi-thread concurrent mode only (sanitizer sub-run)").need("concurrent_reads_checked", 1000));
    }
    if ctx.mode.as_deref() == Some("miri") {
        // Miri sub-run: a handful of sequential sequences (no real-time sleeps matter: Miri's clock is virtual)
        par_cases(ctx, &mon, "seq", 1, |cc, rng, l| {
            for i in 0..4 {
                let mut r2 = Rng::derive(rng.next_u64(), "c16", i);
                block_on(sequential(cc, &mut r2, l, i));
            }
        });
        return finish(ctx, &mon, Spec::new("exploration", "sequential mode, 4 sequences (Miri sub-run)").need("reads_compared_with_database", 10));
    }
    if ctx.mode.as_deref() == Some("miri-mt") {
        // Miri / TSan sub-run: 3 std threads share ONE cached manager (single writer per key, as in the
        // concurrent mode), every thread drives its futures on its own current-thread runtime, so the
        // interpreter sees real cross-thread accesses to the cache, the transaction log and its Relaxed
        // flag.  Oracle: no read returns a value that was never written to that key, values seen by one
        // reader never go backwards, and after quiescence every read equals the database.
        for round in 0..ctx.tier.pick(1, 4) {
            mini_threads(ctx.seed.wrapping_add(round), &mon);
        }
        return finish(ctx, &mon, Spec::new("exploration", "3 threads x 12 operations on one shared cached manager (Miri / TSan sub-run)").need("mt_reads_checked", 10));
    }
    if ctx.mode.as_deref() == Some("seq") {
        par_cases(ctx, &mon, "seq", 8, |cc, rng, l| {
            for i in 0..40 {
                let mut r2 = Rng::derive(rng.next_u64(), "c16", i);
                block_on(sequential(cc, &mut r2, l, i));
            }
        });
        return finish(ctx, &mon, Spec::new("exploration", "sequential mode only (sanitizer sub-run)").need("reads_compared_with_database", 1000));
    }
    // ---- sequential mode
    let n = ctx.tier.pick(3000, 100_000);
    let chunks = 64u64;
    par_cases(ctx, &mon, "seq", chunks, |cc, rng, l| {
        for i in 0..(n / chunks).max(1) {
            let mut r2 = Rng::derive(rng.next_u64(), "c16", i);
            block_on(sequential(cc, &mut r2, l, i));
        }
    });
    // ---- controlled read-fill races: one writer op x 1-2 reader ops, entry and exit gates
    let n_ctl = ctx.tier.pick(108, 216);
    par_cases(ctx, &mon, "ctl", n_ctl, |cc, rng, l| {
        let key_kind = (cc.idx % 3) as u8;
        let n_readers = 1 + (cc.idx / 3 % 2) as usize;
        // cases 72.. : the write does not go through this manager at all (another process / manager wrote the
        // database) and this manager's cache - cold, i.e. EMPTY - is flushed afterwards, as the change poller
        // of a read-only directory does; a read is in flight across write and flush
        let external = cc.idx >= 72;
        let in_txn = cc.idx / 6 % 2 == 1 && !external;
        let with_flush = cc.idx / 12 % 2 == 1 && !external;
        let mut dfs = Dfs::new(ctx.tier.pick(2, 3) + with_flush as usize);
        let mut n = 0;
        loop {
            controlled(key_kind, n_readers, in_txn, with_flush, external, (cc.idx / 24) as usize % 3, &mut dfs, l);
            n += 1;
            if !dfs.advance() || n >= ctx.tier.pick(600, 5000) {
                break;
            }
        }
        let _ = rng.next_u64();
        if cc.idx < 2 {
            l.sample(json!({"case": cc.id, "kind": "controlled read-fill", "key_kind": key_kind, "readers": n_readers, "writer_in_transaction": in_txn, "concurrent_flush": with_flush, "schedules": n}));
        }
    });
    // ---- concurrent mode on a multi-thread runtime
    let n_conc = ctx.tier.pick(4, 16);
    par_cases(ctx, &mon, "conc", n_conc, |cc, rng, l| {
        concurrent(ctx, cc, rng, l);
    });
    finish(
        ctx,
        &mon,
        Spec::new(
            "exploration",
            "sequential: random sequences over 6 keys (nodes, value states, the epoch record) of set / batch_set / get / batch_get / user-state queries / begin-commit-rollback / flush / disable|enable cleaning / real sleeps 0-5 ms, cache lifetime in {2 ms, 5 ms, 30 s}, memory limit in {none, 300 B, 2 KiB}, cleaning every {2 ms, 15 s}, 10 % of writes REJECTED by the database; after every op every key is read through the manager and compared with the raw database (or the pending transaction value); storage advanced behind the manager is followed by flush. controlled: 1 writer op x 1-2 reader ops, all entry/exit gate orders up to a preemption bound (read-fill race). concurrent: single writer per key with unique values, 8 tasks on a multi-thread runtime, interval check (a read that began after write i returned and ended before write i+1 began returns write i). distinct = (op kind, key kind, cache state class); non-trivial = the compared read followed a rejected write / expiry / eviction / flush / transaction end, or overlapped a write",
        )
        .assume("all writes to the keys go through the one manager (except storage advances that are followed by a flush, as the directory's poller does)")
        .need("reads_compared_with_database", ctx.tier.pick(50_000, 1_000_000))
        .need("rejected_writes", ctx.tier.pick(500, 10_000))
        .need("reads_after_expiry", ctx.tier.pick(200, 5_000))
        .need("controlled_schedules", ctx.tier.pick(1_000, 20_000))
        .need("concurrent_reads_checked", ctx.tier.pick(5_000, 100_000)),
    )
}

#[derive(Clone, Debug, PartialEq, Eq, PartialOrd, Ord)]
enum Key {
    Node(u8),
    Vs(u64),
    Azks,
}

fn all_keys() -> Vec<Key> {
    vec![Key::Node(0), Key::Node(1), Key::Node(2), Key::Vs(1), Key::Vs(2), Key::Azks]
}

fn node_label(k: u8) -> NodeLabel {
    let mut lv = [0u8; 32];
    lv[0] = k << 6;
    NodeLabel::new(lv, 2)
}

fn mk_record(k: &Key, tag: u64) -> DbRecord {
    match k {
        Key::Node(i) => {
            let label = node_label(*i);
            let mut h = [0u8; 32];
            h[..8].copy_from_slice(&tag.to_be_bytes());
            let tn = TreeNode {
                label,
                last_epoch: 1,
                min_descendant_epoch: 1,
                parent: NodeLabel::root(),
                node_type: TreeNodeType::Interior,
                left_child: None,
                right_child: None,
                hash: AzksValue(h),
            };
            DbRecord::TreeNode(TreeNodeWithPreviousValue { label, latest_node: tn, previous_node: None })
        }
        Key::Vs(e) => DbRecord::ValueState(DbRecord::build_user_state(b"alice".to_vec(), format!("val{tag}").into_bytes(), *e, 256, [7u8; 32], *e)),
        Key::Azks => DbRecord::Azks(DbRecord::build_azks(tag, tag)),
    }
}

async fn mgr_get(mgr: &StorageManager<XDb>, k: &Key) -> Result<Option<DbRecord>, String> {
    let r = match k {
        Key::Node(i) => mgr.get::<TreeNodeWithPreviousValue>(&NodeKey(node_label(*i))).await,
        Key::Vs(e) => mgr.get::<ValueState>(&akd::storage::types::ValueStateKey(b"alice".to_vec(), *e)).await,
        Key::Azks => mgr.get::<Azks>(&akd::append_only_zks::DEFAULT_AZKS_KEY).await,
    };
    match r {
        Ok(x) => Ok(Some(x)),
        Err(StorageError::NotFound(_)) => Ok(None),
        Err(e) => Err(format!("{e:?}")),
    }
}

async fn raw_get(db: &AsyncInMemoryDatabase, k: &Key) -> Option<DbRecord> {
    let r = match k {
        Key::Node(i) => db.get::<TreeNodeWithPreviousValue>(&NodeKey(node_label(*i))).await,
        Key::Vs(e) => db.get::<ValueState>(&akd::storage::types::ValueStateKey(b"alice".to_vec(), *e)).await,
        Key::Azks => db.get::<Azks>(&akd::append_only_zks::DEFAULT_AZKS_KEY).await,
    };
    r.ok()
}

fn key_kind(k: &Key) -> &'static str {
    match k {
        Key::Node(_) => "node",
        Key::Vs(_) => "value-state",
        Key::Azks => "epoch-record",
    }
}

async fn sequential(cc: &CaseCtx, rng: &mut Rng, l: &mut Local, seq_idx: u64) {
    let db = XDb::new();
    let lifetime = *rng.pick(&[2u64, 5, 30_000]);
    let limit = *rng.pick(&[None, Some(300usize), Some(2048)]);
    let freq = *rng.pick(&[2u64, 15_000]);
    let mgr = StorageManager::new(db.clone(), Some(Duration::from_millis(lifetime)), limit, Some(Duration::from_millis(freq)));
    // 10 % of the database writes are rejected as a whole
    let reject = Arc::new(AtomicBool::new(false));
    {
        let reject = reject.clone();
        db.ctl.set_fault(Some(Box::new(move |info: &OpInfo| {
            if info.kind.is_write() && reject.load(Ordering::SeqCst) {
                Some(StorageError::Connection("injected: write rejected".into()))
            } else {
                None
            }
        })));
    }
    let keys = all_keys();
    let mut tag = seq_idx * 1000;
    let mut pending: BTreeMap<Key, DbRecord> = BTreeMap::new();
    let mut in_txn = false;
    let mut last_event = "start";
    let mut ops: Vec<String> = vec![];
    l.eval(1);
    let n_ops = rng.range(8, 40);
    for _ in 0..n_ops {
        let c = rng.below(100);
        match c {
            0..=34 => {
                // write (single or batch), maybe rejected by the database
                let k = if rng.chance(1, 2) { 1 } else { rng.range(2, 4) };
                let mut recs = vec![];
                let mut ks = vec![];
                for _ in 0..k {
                    let key = rng.pick(&keys).clone();
                    tag += 1;
                    recs.push(mk_record(&key, tag));
                    ks.push(key);
                }
                let rej = !in_txn && rng.chance(1, 10);
                reject.store(rej, Ordering::SeqCst);
                let r = if recs.len() == 1 { mgr.set(recs[0].clone()).await } else { mgr.batch_set(recs.clone()).await };
                reject.store(false, Ordering::SeqCst);
                ops.push(format!("write {ks:?} tag<={tag} txn={in_txn} rejected={rej} -> {}", r.is_ok()));
                if rej {
                    l.count("rejected_writes", 1);
                    if r.is_ok() {
                        l.violation("C16:rejected-write-reported-ok", "a write the database rejected returned Ok", json!({"ops": ops}));
                        return;
                    }
                    last_event = "rejected-write";
                } else {
                    if in_txn {
                        for (k, r) in ks.into_iter().zip(recs.into_iter()) {
                            pending.insert(k, r);
                        }
                    }
                    last_event = "write";
                }
            }
            35..=39 => {
                if !in_txn {
                    in_txn = mgr.begin_transaction();
                    ops.push("begin".into());
                }
            }
            40..=44 => {
                if in_txn {
                    tag += 1;
                    let a = mk_record(&Key::Azks, tag);
                    mgr.set(a.clone()).await.unwrap();
                    pending.insert(Key::Azks, a);
                    let rej = rng.chance(1, 6);
                    reject.store(rej, Ordering::SeqCst);
                    let r = mgr.commit_transaction().await;
                    reject.store(false, Ordering::SeqCst);
                    ops.push(format!("commit rejected={rej} -> {}", r.is_ok()));
                    if rej {
                        l.count("rejected_writes", 1);
                        let _ = mgr.rollback_transaction();
                        last_event = "rejected-commit";
                    } else {
                        last_event = "commit";
                    }
                    pending.clear();
                    in_txn = false;
                }
            }
            45..=47 => {
                if in_txn {
                    let _ = mgr.rollback_transaction();
                    ops.push("rollback".into());
                    pending.clear();
                    in_txn = false;
                    last_event = "rollback";
                }
            }
            48..=52 => {
                // storage advanced by someone else, then the documented remedy: flush
                if !in_txn {
                    tag += 1;
                    let key = rng.pick(&keys).clone();
                    db.inner.set(mk_record(&key, tag)).await.unwrap();
                    mgr.flush_cache().await;
                    ops.push(format!("external write {key:?} + flush"));
                    last_event = "flush";
                    l.count("flushes", 1);
                }
            }
            53..=55 => {
                mgr.flush_cache().await;
                ops.push("flush".into());
                last_event = "flush";
                l.count("flushes", 1);
            }
            56..=58 => {
                if rng.chance(1, 2) {
                    mgr.disable_cache_cleaning();
                    ops.push("disable cleaning".into());
                } else {
                    mgr.enable_cache_cleaning();
                    ops.push("enable cleaning".into());
                }
            }
            59..=68 => {
                let ms = rng.range(0, 5);
                if ms > 0 {
                    tokio::time::sleep(Duration::from_millis(ms)).await;
                    ops.push(format!("sleep {ms}ms"));
                    if ms >= lifetime {
                        last_event = "expiry";
                        l.count("reads_after_expiry", 1);
                    }
                }
            }
            69..=78 => {
                // batch get of node keys
                let ks: Vec<NodeKey> = (0..3u8).filter(|_| rng.chance(2, 3)).map(|i| NodeKey(node_label(i))).collect();
                let got = mgr.batch_get::<TreeNodeWithPreviousValue>(&ks).await;
                ops.push(format!("batch_get x{}", ks.len()));
                match got {
                    Err(e) => {
                        l.violation("C16:batch-get-failed", format!("batch_get failed: {e:?}"), json!({"ops": ops}));
                        return;
                    }
                    Ok(mut v) => {
                        let mut want = vec![];
                        for i in 0..3u8 {
                            if ks.contains(&NodeKey(node_label(i))) {
                                let exp = match pending.get(&Key::Node(i)) {
                                    Some(p) if in_txn => Some(p.clone()),
                                    _ => raw_get(&db.inner, &Key::Node(i)).await,
                                };
                                if let Some(x) = exp {
                                    want.push(x);
                                }
                            }
                        }
                        v.sort_by_key(|r| r.get_full_binary_id());
                        want.sort_by_key(|r| r.get_full_binary_id());
                        l.count("reads_compared_with_database", 1);
                        if v != want {
                            l.violation(
                                format!("C16:batch-get-differs/{last_event}"),
                                format!("batch_get returned {} records, the database (+pending) holds {} for these keys, or contents differ", v.len(), want.len()),
                                json!({"lifetime_ms": lifetime, "limit": limit, "clean_ms": freq, "ops": ops, "case": cc.id, "sequence_index": seq_idx}),
                            );
                            return;
                        }
                    }
                }
            }
            79..=84 => {
                // user-state queries vs an uncached manager over the raw database (outside transactions)
                if !in_txn {
                    let plain = StorageManager::new_no_cache(db.inner.clone());
                    let label = AkdLabel(b"alice".to_vec());
                    let flag = match rng.below(4) {
                        0 => ValueStateRetrievalFlag::MaxEpoch,
                        1 => ValueStateRetrievalFlag::MinEpoch,
                        2 => ValueStateRetrievalFlag::LeqEpoch(rng.range(0, 3)),
                        _ => ValueStateRetrievalFlag::SpecificEpoch(rng.range(0, 3)),
                    };
                    let a = mgr.get_user_state(&label, flag).await.ok();
                    let b = plain.get_user_state(&label, flag).await.ok();
                    l.count("reads_compared_with_database", 1);
                    ops.push(format!("get_user_state {flag:?}"));
                    if a != b {
                        l.violation(format!("C16:user-state-differs/{last_event}"), format!("get_user_state({flag:?}) through the cache = {a:?}, database = {b:?}"), json!({"ops": ops}));
                        return;
                    }
                }
            }
            _ => {}
        }
        // ---- the monitor: every key, through the manager vs the raw database (or pending value)
        for k in &keys {
            let got = match mgr_get(&mgr, k).await {
                Ok(g) => g,
                Err(e) => {
                    l.violation("C16:read-failed", format!("read of {k:?} failed: {e}"), json!({"ops": ops}));
                    return;
                }
            };
            let want = match pending.get(k) {
                Some(p) if in_txn => Some(p.clone()),
                _ => raw_get(&db.inner, k).await,
            };
            l.count("reads_compared_with_database", 1);
            let nontrivial = matches!(last_event, "rejected-write" | "rejected-commit" | "expiry" | "flush" | "rollback" | "commit");
            l.case(format!("get/{}/{last_event}/{}", key_kind(k), if in_txn { "txn" } else { "-" }).as_bytes(), nontrivial);
            if got != want {
                l.violation(
                    format!("C16:read-differs/{}/{last_event}", key_kind(k)),
                    format!("after '{last_event}', reading {k:?} through the manager gives {} but the database holds {}", summarize(&got), summarize(&want)),
                    json!({"lifetime_ms": lifetime, "limit": limit, "clean_ms": freq, "in_transaction": in_txn, "key": format!("{k:?}"), "ops": ops, "case": cc.id, "sequence_index": seq_idx}),
                );
                return;
            }
        }
    }
    if seq_idx == 0 && cc.idx < 2 {
        l.sample(json!({"case": cc.id, "kind": "sequential", "lifetime_ms": lifetime, "limit": limit, "clean_ms": freq, "ops": ops}));
    }
}

fn summarize(r: &Option<DbRecord>) -> String {
    match r {
        None => "nothing".into(),
        Some(DbRecord::Azks(a)) => format!("Azks(epoch {})", a.latest_epoch),
        Some(DbRecord::TreeNode(t)) => format!("Node(tag {})", u64::from_be_bytes(t.latest_node.hash.0[..8].try_into().unwrap())),
        Some(DbRecord::ValueState(v)) => format!("ValueState({})", String::from_utf8_lossy(&v.value.0)),
    }
}

/// One writer op and 1-2 reader ops on one cached manager, every order of entry/exit gates up to the bound.
#[allow(clippy::too_many_arguments)]
fn controlled(key_kind_idx: u8, n_readers: usize, writer_in_txn: bool, with_flush: bool, external: bool, reader_path: usize, strategy: &mut dyn Strategy, l: &mut Local) {
    let key = match key_kind_idx {
        0 => Key::Node(0),
        1 => Key::Vs(1),
        _ => Key::Azks,
    };
    let out = in_runtime(async {
        let db = XDb::new();
        let mgr = StorageManager::new(db.clone(), None, None, None);
        // initial value, not cached (the cache is flushed so that the reader has to go to the database)
        mgr.set(mk_record(&key, 1)).await.unwrap();
        mgr.flush_cache().await;
        let mut r = Runner::new(true);
        db.ctl.set_gate(Some(r.gate()));
        let reads: Arc<Mutex<Vec<Option<DbRecord>>>> = Arc::new(Mutex::new(vec![]));
        {
            let (m, k) = (mgr.clone(), key.clone());
            let ext: StorageManager<XDb> = StorageManager::new_no_cache(db.clone());
            r.client(1, async move {
                if external {
                    // another manager over the same database writes; then this manager is told to flush
                    ext.set(mk_record(&k, 2)).await.unwrap();
                    m.flush_cache().await;
                } else if writer_in_txn {
                    m.begin_transaction();
                    m.set(mk_record(&k, 2)).await.unwrap();
                    if k != Key::Azks {
                        m.set(mk_record(&Key::Azks, 2)).await.unwrap();
                    }
                    m.commit_transaction().await.unwrap();
                } else {
                    m.set(mk_record(&k, 2)).await.unwrap();
                }
            });
        }
        for i in 0..n_readers {
            let (m, k, reads) = (mgr.clone(), key.clone(), reads.clone());
            // the three read paths that fill the cache: get, batch_get, get_user_state
            let via = (reader_path + i) % 3;
            r.client(2 + i as u32, async move {
                let g = match (&k, via) {
                    (Key::Node(n), 1) => m.batch_get::<TreeNodeWithPreviousValue>(&[NodeKey(node_label(*n))]).await.ok().and_then(|mut v| v.pop()),
                    (Key::Vs(e), 1) => m.batch_get::<ValueState>(&[akd::storage::types::ValueStateKey(b"alice".to_vec(), *e)]).await.ok().and_then(|mut v| v.pop()),
                    (Key::Vs(e), 2) => m.get_user_state(&AkdLabel(b"alice".to_vec()), ValueStateRetrievalFlag::SpecificEpoch(*e)).await.ok().map(DbRecord::ValueState),
                    _ => mgr_get(&m, &k).await.ok().flatten(),
                };
                reads.lock().unwrap().push(g);
            });
        }
        if with_flush {
            // a flush issued through the same manager while the read is underway
            let m = mgr.clone();
            r.client(9, async move {
                m.flush_cache().await;
            });
        }
        let out = r.drive(strategy).await;
        db.ctl.set_gate(None);
        // quiescent: writer finished => database holds tag 2; every later read must return it
        let after = mgr_get(&mgr, &key).await.ok().flatten();
        let truth = raw_get(&db.inner, &key).await;
        let concurrent_reads = reads.lock().unwrap().clone();
        (out, after, truth, concurrent_reads)
    });
    let (out, after, truth, concurrent_reads) = out;
    l.eval(1);
    l.count("controlled_schedules", 1);
    let overlap = (0..n_readers).any(|i| out.overlap(1, 2 + i as u32));
    l.case_h(out.interleaving_hash() ^ (key_kind_idx as u64) << 56 ^ (writer_in_txn as u64) << 55 ^ (with_flush as u64) << 54 ^ (external as u64) << 53, overlap);
    if external {
        l.count("controlled_schedules_external_writer", 1);
    }
    if out.stuck {
        l.violation("C16:controlled-stuck", "controlled schedule got stuck", json!({"schedule": out.schedule()}));
        return;
    }
    // concurrent reads may return the old or the new value, nothing else
    for g in &concurrent_reads {
        let ok = *g == Some(mk_record(&key, 1)) || *g == Some(mk_record(&key, 2)) || (writer_in_txn && key != Key::Azks && g.is_some());
        if !ok {
            l.violation(format!("C16:concurrent-read-neither-old-nor-new/{}", key_kind(&key)), format!("a read overlapping the write returned {}", summarize(g)), json!({"schedule": out.schedule()}));
            return;
        }
    }
    if after != truth {
        l.violation(
            format!("C16:read-fill-race/{}/{}{}/path{}", key_kind(&key), if external { "external-write+flush-of-empty-cache" } else if writer_in_txn { "commit" } else { "set" }, if with_flush { "+flush" } else { "" }, reader_path),
            format!("after writer and readers finished, a read through the manager returns {} but the database holds {} (a reader's late cache fill replaced the writer's entry)", summarize(&after), summarize(&truth)),
            json!({"key": format!("{key:?}"), "writer_in_transaction": writer_in_txn, "schedule": out.schedule(), "trace": out.trace.iter().map(|(t, d)| format!("{t}:{d}")).collect::<Vec<_>>()}),
        );
    }
}

/// multi-thread: single writer per key, many readers, interval check per key
fn concurrent(ctx: &Ctx, cc: &CaseCtx, rng: &mut Rng, l: &mut Local) {
    let rt = tokio::runtime::Builder::new_multi_thread().worker_threads(8).enable_time().build().expect("rt");
    let seed = rng.next_u64();
    // no expiry in the concurrent mode: a stale read could otherwise be manufactured by nothing but a
    // read whose response takes longer than the item lifetime on a loaded machine (the verdict must not
    // depend on wall-clock time); expiry is exercised by the sequential mode
    let lifetime = 30_000u64;
    let secs = ctx.tier.pick(2, 12);
    let keys = vec![Key::Node(0), Key::Node(1), Key::Vs(1), Key::Azks];
    type WriteLog = Vec<(u64, u64, u64)>; // (tag, t0, t1) of successful writes
    type ReadLog = Vec<(usize, u64, u64, Option<u64>)>; // (key idx, t0, t1, tag read)
    let (writes, reads): (Vec<WriteLog>, ReadLog) = rt.block_on(async {
        let db = XDb::new();
        *db.ctl.jitter.lock().unwrap() = Some(Rng::new(seed));
        let mgr = StorageManager::new(db.clone(), Some(Duration::from_millis(lifetime)), None, None);
        let clock = Arc::new(AtomicU64::new(1));
        let stop = Arc::new(AtomicBool::new(false));
        for (i, k) in keys.iter().enumerate() {
            mgr.set(mk_record(k, (i as u64 + 1) * 1_000_000)).await.unwrap();
        }
        let mut whandles = vec![];
        for (i, k) in keys.iter().enumerate() {
            let (m, k, clock, stop) = (mgr.clone(), k.clone(), clock.clone(), stop.clone());
            whandles.push(tokio::spawn(async move {
                let mut log: WriteLog = vec![((i as u64 + 1) * 1_000_000, 0, 0)];
                let mut tag = (i as u64 + 1) * 1_000_000;
                while !stop.load(Ordering::SeqCst) {
                    tag += 1;
                    let t0 = clock.fetch_add(1, Ordering::SeqCst);
                    let r = m.set(mk_record(&k, tag)).await;
                    let t1 = clock.fetch_add(1, Ordering::SeqCst);
                    if r.is_ok() {
                        log.push((tag, t0, t1));
                    }
                    tokio::time::sleep(Duration::from_micros(300)).await;
                }
                log
            }));
        }
        let mut rhandles = vec![];
        for ri in 0..6u64 {
            let (m, keys, clock, stop) = (mgr.clone(), keys.clone(), clock.clone(), stop.clone());
            let mut rr = Rng::derive(seed, "c16-reader", ri);
            rhandles.push(tokio::spawn(async move {
                let mut log: ReadLog = vec![];
                while !stop.load(Ordering::SeqCst) && log.len() < 200_000 {
                    let ki = rr.usize_below(keys.len());
                    let t0 = clock.fetch_add(1, Ordering::SeqCst);
                    let g = mgr_get(&m, &keys[ki]).await.ok().flatten();
                    let t1 = clock.fetch_add(1, Ordering::SeqCst);
                    let tag = g.map(|r| match r {
                        DbRecord::Azks(a) => a.latest_epoch,
                        DbRecord::TreeNode(t) => u64::from_be_bytes(t.latest_node.hash.0[..8].try_into().unwrap()),
                        DbRecord::ValueState(v) => String::from_utf8_lossy(&v.value.0)[3..].parse().unwrap_or(0),
                    });
                    log.push((ki, t0, t1, tag));
                    if rr.chance(1, 50) {
                        tokio::task::yield_now().await;
                    }
                }
                log
            }));
        }
        // a flusher, as the poller would
        {
            let (m, stop) = (mgr.clone(), stop.clone());
            tokio::spawn(async move {
                while !stop.load(Ordering::SeqCst) {
                    tokio::time::sleep(Duration::from_millis(7)).await;
                    m.flush_cache().await;
                }
            });
        }
        tokio::time::sleep(Duration::from_secs(secs)).await;
        stop.store(true, Ordering::SeqCst);
        let mut writes = vec![];
        for h in whandles {
            writes.push(h.await.unwrap());
        }
        let mut reads = vec![];
        for h in rhandles {
            reads.extend(h.await.unwrap());
        }
        (writes, reads)
    });
    l.eval(1);
    l.case(format!("concurrent/{}", cc.idx).as_bytes(), true);
    l.count("concurrent_writes", writes.iter().map(|w| w.len() as u64).sum());
    for (ki, s, e, tag) in reads {
        l.count("concurrent_reads_checked", 1);
        let w = &writes[ki];
        let Some(tag) = tag else {
            l.violation(format!("C16:concurrent/{}/read-returned-nothing", key_kind(&keys[ki])), "a read of an existing key returned nothing", json!({"jitter_seed": seed}));
            return;
        };
        // newest write that completed before the read began
        let lo = w.iter().filter(|x| x.2 < s).map(|x| x.0).max().unwrap_or(w[0].0);
        // newest write that began before the read ended
        let hi = w.iter().filter(|x| x.1 < e).map(|x| x.0).max().unwrap_or(w[0].0);
        if tag < lo || tag > hi {
            l.violation(
                format!("C16:concurrent/{}/{}", key_kind(&keys[ki]), if tag < lo { "stale-read" } else { "future-read" }),
                format!("a read of {:?} over logical interval [{s},{e}] returned write #{tag}, but write #{lo} had completed before it began and #{hi} was the last to begin before it ended", keys[ki]),
                json!({"jitter_seed": seed, "lifetime_ms": lifetime, "key": format!("{:?}", keys[ki]), "read_interval": [s, e], "returned": tag, "allowed": [lo, hi]}),
            );
            return;
        }
        if lo != hi {
            l.count("concurrent_reads_overlapping_a_write", 1);
        }
    }
}

/// 1 writer thread + 2 reader threads over one cached StorageManager; see the `miri-mt` mode.
fn mini_threads(seed: u64, mon: &Mon) {
    let db = XDb::new();
    let mgr = StorageManager::new(db.clone(), Some(Duration::from_secs(30)), None, Some(Duration::from_secs(15)));
    let keys = [Key::Node(0), Key::Vs(1), Key::Azks];
    block_on(async {
        for k in &keys {
            mgr.set(mk_record(k, 1)).await.expect("initial set");
        }
    });
    let tag_of = |r: &DbRecord| -> u64 {
        match r {
            DbRecord::TreeNode(t) => u64::from_be_bytes(t.latest_node.hash.0[..8].try_into().unwrap()),
            DbRecord::ValueState(v) => String::from_utf8_lossy(&v.value.0).trim_start_matches("val").parse().unwrap_or(u64::MAX),
            DbRecord::Azks(a) => a.latest_epoch,
        }
    };
    let n_writes = 12u64;
    let mut locals: Vec<Local> = vec![];
    // per key: tag of the last write that COMPLETED / that was STARTED (single writer, increasing tags)
    let completed: Arc<Vec<AtomicU64>> = Arc::new((0..3).map(|_| AtomicU64::new(1)).collect());
    let started: Arc<Vec<AtomicU64>> = Arc::new((0..3).map(|_| AtomicU64::new(1)).collect());
    let kidx = |k: &Key| -> usize { match k { Key::Node(_) => 0, Key::Vs(_) => 1, Key::Azks => 2 } };
    let evlog: Arc<std::sync::Mutex<Vec<String>>> = Arc::new(std::sync::Mutex::new(vec![]));
    std::thread::scope(|s| {
        let mut hs = vec![];
        {
            let mgr = mgr.clone();
            let keys = keys.clone();
            let (completed, started) = (completed.clone(), started.clone());
            let evlog = evlog.clone();
            hs.push(s.spawn(move || {
                let mut l = Local::default();
                let mut rng = Rng::derive(seed, "c16-mt-writer", 0);
                block_on(async {
                    for t in 2..(2 + n_writes) {
                        let k = rng.pick(&keys).clone();
                        started[kidx(&k)].store(t, Ordering::SeqCst);
                        let how = rng.below(4);
                        evlog.lock().unwrap().push(format!("W start tag {t} {} via {}", key_kind(&k), ["txn", "batch_set", "set+flush", "set"][how as usize]));
                        match how {
                            0 => {
                                // through a transaction
                                // a commit needs the epoch record in the log (it is written last)
                                started[2].store(t, Ordering::SeqCst);
                                if mgr.begin_transaction() {
                                    let mut ok = mgr.set(mk_record(&k, t)).await.is_ok();
                                    if k != Key::Azks {
                                        ok &= mgr.set(mk_record(&Key::Azks, t)).await.is_ok();
                                    }
                                    // always committed: readers on other threads legitimately see the pending value
                                    // (the property allows "or the pending transaction value"), so a rollback
                                    // would make their reads go backwards without any fault of the cache
                                    match mgr.commit_transaction().await {
                                        Ok(_) if ok => completed[2].store(t, Ordering::SeqCst),
                                        other => {
                                            l.inconclusive(format!("miri-mt writer: transaction for tag {t} did not commit: {:?}", other.err()));
                                            return;
                                        }
                                    }
                                } else {
                                    l.inconclusive("miri-mt writer: begin_transaction refused although this is the only writer");
                                    return;
                                }
                            }
                            1 => {
                                let _ = mgr.batch_set(vec![mk_record(&k, t)]).await;
                            }
                            2 => {
                                let _ = mgr.set(mk_record(&k, t)).await;
                                mgr.flush_cache().await;
                            }
                            _ => {
                                let _ = mgr.set(mk_record(&k, t)).await;
                            }
                        }
                        completed[kidx(&k)].store(t, Ordering::SeqCst);
                        evlog.lock().unwrap().push(format!("W done  tag {t}"));
                        l.count("mt_writes", 1);
                    }
                });
                l
            }));
        }
        for r in 0..2u64 {
            let mgr = mgr.clone();
            let keys = keys.clone();
            let (completed, started) = (completed.clone(), started.clone());
            let evlog = evlog.clone();
            hs.push(s.spawn(move || {
                let mut l = Local::default();
                let mut rng = Rng::derive(seed, "c16-mt-reader", r);
                block_on(async {
                    for _ in 0..12 {
                        let k = rng.pick(&keys).clone();
                        let floor = completed[kidx(&k)].load(Ordering::SeqCst);
                        evlog.lock().unwrap().push(format!("R{r} begin {} floor {floor}", key_kind(&k)));
                        let got = if rng.chance(1, 3) {
                            match &k {
                                Key::Node(i) => mgr.batch_get::<TreeNodeWithPreviousValue>(&[NodeKey(node_label(*i))]).await.ok().and_then(|v| v.into_iter().next()),
                                _ => mgr_get(&mgr, &k).await.ok().flatten(),
                            }
                        } else {
                            mgr_get(&mgr, &k).await.ok().flatten()
                        };
                        l.eval(1);
                        l.count("mt_reads_checked", 1);
                        match got {
                            Some(rec) => {
                                let t = tag_of(&rec);
                                evlog.lock().unwrap().push(format!("R{r} got tag {t} {}", key_kind(&k)));
                                let ceil = started[kidx(&k)].load(Ordering::SeqCst);
                                if t == 0 || t > ceil {
                                    l.violation(format!("C16:mt/{}/value-never-written", key_kind(&k)), format!("a concurrent read returned tag {t}, but the newest write started so far is {ceil}"), json!({"seed": seed}));
                                }
                                // interval rule: a read that began after write `floor` completed must not return
                                // anything older (a pending transaction value that disappears again while the
                                // commit is in flight is allowed by the property, so no monotonicity per reader)
                                if t < floor {
                                    l.violation(format!("C16:mt/{}/stale-read", key_kind(&k)), format!("a read that began after the write of tag {floor} had completed returned the older tag {t}"), json!({"seed": seed, "events": evlog.lock().unwrap().clone()}));
                                }
                                l.case(format!("mt/{}/{}", key_kind(&k), t.min(3)).as_bytes(), true);
                            }
                            None => l.violation(format!("C16:mt/{}/read-returned-nothing", key_kind(&k)), "a read of an existing key returned nothing", json!({"seed": seed})),
                        }
                    }
                });
                l
            }));
        }
        for h in hs {
            if let Ok(l) = h.join() {
                locals.push(l);
            }
        }
    });
    // quiescent: every read through the manager equals the database (the transaction is closed)
    let mut l = Local::default();
    block_on(async {
        if mgr.is_transaction_active() {
            let _ = mgr.rollback_transaction();
        }
        for k in &keys {
            let via = mgr_get(&mgr, k).await.ok().flatten();
            let raw = raw_get(&db.inner, k).await;
            l.eval(1);
            if via != raw {
                l.violation(format!("C16:mt/{}/final-read-differs", key_kind(k)), format!("after all threads finished, the manager returns {} but the database holds {}", summarize(&via), summarize(&raw)), json!({"seed": seed}));
            }
        }
    });
    locals.push(l);
    for l in locals {
        mon.absorb(l);
    }
}
