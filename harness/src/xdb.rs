//! `Database` wrapper around `AsyncInMemoryDatabase`: the instrumentation boundary.
//! One wrapper type with switchable behaviours (so that `Directory<TC, XDb, V>` is one type):
//!   counting + op log (CountingDb), fault injection (FaultDb), commit capture (CrashDb),
//!   scheduler gates before and after each operation (GateDb), seeded jitter (JitterDb).

use crate::common::*;
use crate::rng::Rng;
use std::collections::HashMap;
use std::sync::atomic::{AtomicBool, AtomicU64, Ordering};
use std::sync::{Arc, Mutex, RwLock};

tokio::task_local! {
    /// logical client-task id (0 = untagged)
    pub static TASK_ID: u32;
}

pub fn cur_task() -> u32 {
    TASK_ID.try_with(|x| *x).unwrap_or(0)
}

#[derive(Clone, Copy, Debug, PartialEq, Eq, Hash, PartialOrd, Ord)]
pub enum OpKind {
    Set,
    BatchSet,
    BatchSetCommit,
    Get,
    BatchGet,
    GetUserData,
    GetUserState,
    GetUserStateVersions,
}

impl OpKind {
    pub fn is_write(&self) -> bool {
        matches!(self, OpKind::Set | OpKind::BatchSet | OpKind::BatchSetCommit)
    }
    pub fn name(&self) -> &'static str {
        match self {
            OpKind::Set => "set",
            OpKind::BatchSet => "batch_set",
            OpKind::BatchSetCommit => "batch_set_commit",
            OpKind::Get => "get",
            OpKind::BatchGet => "batch_get",
            OpKind::GetUserData => "get_user_data",
            OpKind::GetUserState => "get_user_state",
            OpKind::GetUserStateVersions => "get_user_state_versions",
        }
    }
}

#[derive(Clone, Debug)]
pub struct OpInfo {
    /// 1-based index of this operation since the last `reset_counters`
    pub idx: u64,
    pub task: u32,
    pub kind: OpKind,
    /// true when the op concerns the Azks (epoch) record
    pub azks: bool,
    pub what: String,
}

#[derive(Clone, Debug)]
pub struct OpRec {
    pub info: OpInfo,
    pub ok: bool,
    pub err: Option<String>,
    /// epoch of the Azks record read or written by this op, if any
    pub azks_epoch: Option<u64>,
    pub injected: bool,
}

#[async_trait::async_trait]
pub trait Gate: Send + Sync {
    async fn before(&self, info: &OpInfo);
    async fn after(&self, info: &OpInfo);
}

pub type FaultFn = Box<dyn FnMut(&OpInfo) -> Option<StorageError> + Send>;

#[derive(Default)]
pub struct Ctl {
    pub ops: AtomicU64,
    pub reads: AtomicU64,
    pub writes: AtomicU64,
    pub write_records: AtomicU64,
    pub injected: AtomicU64,
    pub log_on: AtomicBool,
    pub log: Mutex<Vec<OpRec>>,
    pub fault: Mutex<Option<FaultFn>>,
    pub gate: RwLock<Option<Arc<dyn Gate>>>,
    pub capture_commits: AtomicBool,
    pub commits: Mutex<Vec<Vec<DbRecord>>>,
    pub jitter: Mutex<Option<Rng>>,
    pub per_kind: Mutex<HashMap<OpKind, u64>>,
}

impl Ctl {
    pub fn reset_counters(&self) {
        self.ops.store(0, Ordering::SeqCst);
        self.reads.store(0, Ordering::SeqCst);
        self.writes.store(0, Ordering::SeqCst);
        self.write_records.store(0, Ordering::SeqCst);
        self.injected.store(0, Ordering::SeqCst);
    }
    pub fn set_fault(&self, f: Option<FaultFn>) {
        *self.fault.lock().unwrap() = f;
    }
    pub fn set_gate(&self, g: Option<Arc<dyn Gate>>) {
        *self.gate.write().unwrap() = g;
    }
    pub fn set_log(&self, on: bool) {
        self.log_on.store(on, Ordering::SeqCst);
    }
    pub fn take_log(&self) -> Vec<OpRec> {
        std::mem::take(&mut *self.log.lock().unwrap())
    }
    pub fn take_commits(&self) -> Vec<Vec<DbRecord>> {
        std::mem::take(&mut *self.commits.lock().unwrap())
    }
    pub fn n_ops(&self) -> u64 {
        self.ops.load(Ordering::SeqCst)
    }
    pub fn n_writes(&self) -> u64 {
        self.writes.load(Ordering::SeqCst)
    }
    pub fn kinds(&self) -> HashMap<OpKind, u64> {
        self.per_kind.lock().unwrap().clone()
    }

    fn wants_detail(&self) -> bool {
        self.log_on.load(Ordering::Relaxed) || self.gate.read().unwrap().is_some()
    }

    async fn enter(&self, kind: OpKind, azks: bool, what: impl FnOnce() -> String) -> Result<OpInfo, (OpInfo, StorageError)> {
        let idx = self.ops.fetch_add(1, Ordering::SeqCst) + 1;
        if kind.is_write() {
            self.writes.fetch_add(1, Ordering::SeqCst);
        } else {
            self.reads.fetch_add(1, Ordering::SeqCst);
        }
        *self.per_kind.lock().unwrap().entry(kind).or_insert(0) += 1;
        let info = OpInfo {
            idx,
            task: cur_task(),
            kind,
            azks,
            what: if self.wants_detail() { what() } else { String::new() },
        };
        let jit = {
            let mut j = self.jitter.lock().unwrap();
            j.as_mut().map(|r| r.below(8))
        };
        if let Some(j) = jit {
            match j {
                0..=3 => {}
                4..=5 => tokio::task::yield_now().await,
                6 => {
                    for _ in 0..3 {
                        tokio::task::yield_now().await
                    }
                }
                _ => tokio::time::sleep(std::time::Duration::from_micros(50)).await,
            }
        }
        let gate = self.gate.read().unwrap().clone();
        if let Some(g) = gate {
            g.before(&info).await;
        }
        let injected = {
            let mut f = self.fault.lock().unwrap();
            match f.as_mut() {
                Some(f) => f(&info),
                None => None,
            }
        };
        if let Some(e) = injected {
            self.injected.fetch_add(1, Ordering::SeqCst);
            return Err((info, e));
        }
        Ok(info)
    }

    async fn exit(&self, info: OpInfo, ok: bool, err: Option<String>, azks_epoch: Option<u64>, injected: bool) {
        if self.log_on.load(Ordering::Relaxed) {
            self.log.lock().unwrap().push(OpRec {
                info: info.clone(),
                ok,
                err,
                azks_epoch,
                injected,
            });
        }
        if !injected {
            let gate = self.gate.read().unwrap().clone();
            if let Some(g) = gate {
                g.after(&info).await;
            }
        }
    }
}

#[derive(Clone)]
pub struct XDb {
    pub inner: AsyncInMemoryDatabase,
    pub ctl: Arc<Ctl>,
}

impl XDb {
    pub fn new() -> Self {
        XDb {
            inner: AsyncInMemoryDatabase::new(),
            ctl: Arc::new(Ctl::default()),
        }
    }
    pub fn over(inner: AsyncInMemoryDatabase) -> Self {
        XDb {
            inner,
            ctl: Arc::new(Ctl::default()),
        }
    }
    /// a second handle on the same storage with independent instrumentation
    pub fn sibling(&self) -> Self {
        XDb {
            inner: self.inner.clone(),
            ctl: Arc::new(Ctl::default()),
        }
    }
}

impl Default for XDb {
    fn default() -> Self {
        Self::new()
    }
}

fn azks_epoch_of(records: &[DbRecord]) -> Option<u64> {
    records.iter().find_map(|r| match r {
        DbRecord::Azks(a) => Some(a.latest_epoch),
        _ => None,
    })
}

fn rec_summary(r: &DbRecord) -> String {
    match r {
        DbRecord::Azks(a) => format!("Azks(e{},n{})", a.latest_epoch, a.num_nodes),
        DbRecord::TreeNode(n) => format!("Node({}@e{})", label_str(&n.label), n.latest_node.last_epoch),
        DbRecord::ValueState(v) => format!("VS({}@e{},v{})", hx(&v.username), v.epoch, v.version),
    }
}

#[async_trait::async_trait]
impl Database for XDb {
    async fn set(&self, record: DbRecord) -> Result<(), StorageError> {
        let is_azks = matches!(record, DbRecord::Azks(_));
        let ep = azks_epoch_of(std::slice::from_ref(&record));
        match self.ctl.enter(OpKind::Set, is_azks, || rec_summary(&record)).await {
            Err((info, e)) => {
                self.ctl.exit(info, false, Some(format!("{e:?}")), ep, true).await;
                Err(e)
            }
            Ok(info) => {
                self.ctl.write_records.fetch_add(1, Ordering::SeqCst);
                let r = self.inner.set(record).await;
                self.ctl.exit(info, r.is_ok(), r.as_ref().err().map(|e| format!("{e:?}")), ep, false).await;
                r
            }
        }
    }

    async fn batch_set(&self, records: Vec<DbRecord>, state: DbSetState) -> Result<(), StorageError> {
        let commit = matches!(state, DbSetState::TransactionCommit);
        let kind = if commit { OpKind::BatchSetCommit } else { OpKind::BatchSet };
        let ep = azks_epoch_of(&records);
        let n = records.len();
        match self
            .ctl
            .enter(kind, ep.is_some(), || {
                format!("{} records [{}]", n, records.iter().take(4).map(rec_summary).collect::<Vec<_>>().join(","))
            })
            .await
        {
            Err((info, e)) => {
                self.ctl.exit(info, false, Some(format!("{e:?}")), ep, true).await;
                Err(e)
            }
            Ok(info) => {
                if commit && self.ctl.capture_commits.load(Ordering::SeqCst) {
                    self.ctl.commits.lock().unwrap().push(records.clone());
                }
                self.ctl.write_records.fetch_add(n as u64, Ordering::SeqCst);
                let r = self.inner.batch_set(records, state).await;
                self.ctl.exit(info, r.is_ok(), r.as_ref().err().map(|e| format!("{e:?}")), ep, false).await;
                r
            }
        }
    }

    async fn get<St: Storable>(&self, id: &St::StorageKey) -> Result<DbRecord, StorageError> {
        let is_azks = St::data_type() == akd::storage::types::StorageType::Azks;
        match self.ctl.enter(OpKind::Get, is_azks, || format!("{:?}:{:?}", St::data_type(), id)).await {
            Err((info, e)) => {
                self.ctl.exit(info, false, Some(format!("{e:?}")), None, true).await;
                Err(e)
            }
            Ok(info) => {
                let r = self.inner.get::<St>(id).await;
                let ep = r.as_ref().ok().and_then(|x| azks_epoch_of(std::slice::from_ref(x)));
                self.ctl.exit(info, r.is_ok(), r.as_ref().err().map(|e| storage_err_kind(e).to_string()), ep, false).await;
                r
            }
        }
    }

    async fn batch_get<St: Storable>(&self, ids: &[St::StorageKey]) -> Result<Vec<DbRecord>, StorageError> {
        match self
            .ctl
            .enter(OpKind::BatchGet, false, || format!("{:?} x{}", St::data_type(), ids.len()))
            .await
        {
            Err((info, e)) => {
                self.ctl.exit(info, false, Some(format!("{e:?}")), None, true).await;
                Err(e)
            }
            Ok(info) => {
                let r = self.inner.batch_get::<St>(ids).await;
                self.ctl.exit(info, r.is_ok(), None, None, false).await;
                r
            }
        }
    }

    async fn get_user_data(&self, username: &AkdLabel) -> Result<KeyData, StorageError> {
        match self.ctl.enter(OpKind::GetUserData, false, || hx(username)).await {
            Err((info, e)) => {
                self.ctl.exit(info, false, Some(format!("{e:?}")), None, true).await;
                Err(e)
            }
            Ok(info) => {
                let r = self.inner.get_user_data(username).await;
                self.ctl.exit(info, r.is_ok(), r.as_ref().err().map(|e| storage_err_kind(e).to_string()), None, false).await;
                r
            }
        }
    }

    async fn get_user_state(&self, username: &AkdLabel, flag: ValueStateRetrievalFlag) -> Result<ValueState, StorageError> {
        match self.ctl.enter(OpKind::GetUserState, false, || format!("{} {:?}", hx(username), flag)).await {
            Err((info, e)) => {
                self.ctl.exit(info, false, Some(format!("{e:?}")), None, true).await;
                Err(e)
            }
            Ok(info) => {
                let r = self.inner.get_user_state(username, flag).await;
                self.ctl.exit(info, r.is_ok(), r.as_ref().err().map(|e| storage_err_kind(e).to_string()), None, false).await;
                r
            }
        }
    }

    async fn get_user_state_versions(
        &self,
        usernames: &[AkdLabel],
        flag: ValueStateRetrievalFlag,
    ) -> Result<HashMap<AkdLabel, (u64, AkdValue)>, StorageError> {
        match self
            .ctl
            .enter(OpKind::GetUserStateVersions, false, || format!("x{} {:?}", usernames.len(), flag))
            .await
        {
            Err((info, e)) => {
                self.ctl.exit(info, false, Some(format!("{e:?}")), None, true).await;
                Err(e)
            }
            Ok(info) => {
                let r = self.inner.get_user_state_versions(usernames, flag).await;
                self.ctl.exit(info, r.is_ok(), None, None, false).await;
                r
            }
        }
    }
}

#[async_trait::async_trait]
impl StorageUtil for XDb {
    async fn batch_get_type_direct<St: Storable>(&self) -> Result<Vec<DbRecord>, StorageError> {
        self.inner.batch_get_type_direct::<St>().await
    }
    async fn batch_get_all_direct(&self) -> Result<Vec<DbRecord>, StorageError> {
        self.inner.batch_get_all_direct().await
    }
}

/// fault function: fail operation number `k` (1-based since reset); sticky = also every later op
pub fn fail_at(k: u64, sticky: bool, connection: bool) -> FaultFn {
    Box::new(move |info: &OpInfo| {
        if info.idx == k || (sticky && info.idx > k) {
            Some(if connection {
                StorageError::Connection(format!("injected fault at op {}", info.idx))
            } else {
                StorageError::Other(format!("injected fault at op {}", info.idx))
            })
        } else {
            None
        }
    })
}
