//! C17 — node-label operations agree with their bit-string meaning.

use crate::common::*;
use crate::mon::*;
use crate::refhash;
use crate::rng::Rng;
use crate::with_cfg;
use crate::world::{cfg_of, to_rlabel};
use akd::append_only_zks::verif_hooks::ElementSet;
use akd::PrefixOrdering;
use serde_json::json;

type Bits = Vec<bool>;

fn bits_of(l: &NodeLabel) -> Bits {
    (0..l.label_len.min(256)).map(|i| (l.label_val[(i / 8) as usize] >> (7 - (i % 8))) & 1 == 1).collect()
}

/// canonical label (bits beyond the length are zero) of a bit string
fn label_of(b: &[bool]) -> NodeLabel {
    let mut v = [0u8; 32];
    for (i, x) in b.iter().enumerate() {
        if *x {
            v[i / 8] |= 1 << (7 - (i % 8));
        }
    }
    NodeLabel::new(v, b.len() as u32)
}

/// same bit string, random garbage beyond the length
fn with_garbage(l: &NodeLabel, rng: &mut Rng) -> NodeLabel {
    let mut v = l.label_val;
    for i in l.label_len..256 {
        if rng.chance(1, 2) {
            v[(i / 8) as usize] |= 1 << (7 - (i % 8));
        }
    }
    NodeLabel::new(v, l.label_len)
}

fn m_is_prefix(a: &[bool], b: &[bool]) -> bool {
    a.len() <= b.len() && b[..a.len()] == *a
}

fn m_lcp(a: &[bool], b: &[bool]) -> Bits {
    a.iter().zip(b.iter()).take_while(|(x, y)| x == y).map(|(x, _)| *x).collect()
}

fn m_ordering(a: &[bool], b: &[bool]) -> PrefixOrdering {
    if a.len() >= b.len() || !m_is_prefix(a, b) {
        PrefixOrdering::Invalid
    } else if b[a.len()] {
        PrefixOrdering::WithOne
    } else {
        PrefixOrdering::WithZero
    }
}

fn m_cmp(a: &[bool], b: &[bool]) -> std::cmp::Ordering {
    a.len().cmp(&b.len()).then_with(|| a.cmp(b))
}

fn is_sentinel<TC: Configuration>(l: &NodeLabel) -> bool {
    *l == TC::empty_label()
}

/// all operations on one pair; `canonical` = both labels are canonical (Eq/Ord are only defined there)
fn check_pair<TC: Configuration>(l: &mut Local, a: &NodeLabel, b: &NodeLabel, canonical: bool, family: &str) -> bool {
    let (ba, bb) = (bits_of(a), bits_of(b));
    l.eval(1);
    let fail = |l: &mut Local, op: &str, got: String, want: String| {
        l.violation(
            format!("C17:{op}/{family}"),
            format!("{op}({}, {}) = {got}, bit-string meaning = {want}", label_str(a), label_str(b)),
            json!({"op": op, "a": {"val": hex::encode(a.label_val), "len": a.label_len}, "b": {"val": hex::encode(b.label_val), "len": b.label_len},
                   "got": got, "want": want, "cfg": cfg_of::<TC>().name(), "canonical_inputs": canonical}),
        );
    };
    let got = a.is_prefix_of(b);
    let want = m_is_prefix(&ba, &bb);
    if got != want {
        fail(l, "is_prefix_of", got.to_string(), want.to_string());
        return false;
    }
    let got = a.get_prefix_ordering(*b);
    let want = m_ordering(&ba, &bb);
    if got != want {
        fail(l, "get_prefix_ordering", format!("{got:?}"), format!("{want:?}"));
        return false;
    }
    if !is_sentinel::<TC>(a) && !is_sentinel::<TC>(b) {
        let got = a.get_longest_common_prefix::<TC>(*b);
        let want = label_of(&m_lcp(&ba, &bb));
        if got != want {
            fail(l, "get_longest_common_prefix", label_str(&got), label_str(&want));
            return false;
        }
    }
    if canonical {
        let got = a.cmp(b);
        let want = m_cmp(&ba, &bb);
        if got != want {
            fail(l, "cmp", format!("{got:?}"), format!("{want:?}"));
            return false;
        }
        if (a == b) != (ba == bb) {
            fail(l, "eq", (a == b).to_string(), (ba == bb).to_string());
            return false;
        }
    }
    true
}

fn check_prefixes<TC: Configuration>(l: &mut Local, a: &NodeLabel, lens: &[u32], family: &str) -> bool {
    let ba = bits_of(a);
    for &k in lens {
        if k > a.label_len {
            continue;
        }
        l.eval(1);
        let got = a.get_prefix(k);
        let want = label_of(&ba[..k as usize]);
        if got != want {
            l.violation(
                format!("C17:get_prefix/{family}"),
                format!("get_prefix({}, {k}) = {} but the first {k} bits are {}", label_str(a), label_str(&got), label_str(&want)),
                json!({"a": {"val": hex::encode(a.label_val), "len": a.label_len}, "k": k}),
            );
            return false;
        }
    }
    true
}

pub fn run(ctx: &Ctx) -> i32 {
    let mon = Mon::new();
    let max_len: u32 = match ctx.mode.as_deref() {
        Some("small") => 6, // dev-profile sub-run
        Some("miri") => 3,  // Miri sub-run
        _ => 10,
    };
    // ---- exhaustive: all pairs of canonical labels of length 0..max_len
    let mut all: Vec<NodeLabel> = vec![];
    for len in 0..=max_len {
        for x in 0u32..(1 << len) {
            let b: Bits = (0..len).map(|i| (x >> (len - 1 - i)) & 1 == 1).collect();
            all.push(label_of(&b));
        }
    }
    let all = &all;
    let n_all = all.len() as u64;
    par_cases(ctx, &mon, "exhaustive", 64, |cc, rng, l| {
        let cfgs = [Cfg::Wa, Cfg::Exp];
        for (i, a) in all.iter().enumerate() {
            if i as u64 % 64 != cc.idx {
                continue;
            }
            let ga = with_garbage(a, rng);
            for b in all.iter() {
                for cfg in cfgs {
                    let ok = with_cfg!(cfg, TC, { check_pair::<TC>(l, a, b, true, "exhaustive<=10bit") });
                    if !ok {
                        return;
                    }
                }
                l.enumerated_distinct += 1;
                // the operations documented as ignoring bits beyond label_len
                let gb = with_garbage(b, rng);
                if ga.is_prefix_of(&gb) != a.is_prefix_of(b) || ga.get_prefix_ordering(gb) != a.get_prefix_ordering(*b) {
                    l.violation(
                        "C17:garbage-beyond-len-changes-result/exhaustive<=10bit",
                        format!("is_prefix_of / get_prefix_ordering of ({}, {}) change when bits beyond label_len are set", label_str(a), label_str(b)),
                        json!({"a": hex::encode(ga.label_val), "alen": a.label_len, "b": hex::encode(gb.label_val), "blen": b.label_len}),
                    );
                    return;
                }
            }
            let lens: Vec<u32> = (0..=a.label_len).collect();
            if !check_prefixes::<Wa>(l, a, &lens, "exhaustive<=10bit") {
                return;
            }
        }
        l.count("exhaustive_labels", n_all / 64);
        if cc.idx == 0 {
            l.sample(json!({"family": "exhaustive", "labels": n_all, "pairs": n_all * n_all, "example": [label_str(&all[5.min(all.len() - 1)]), label_str(&all[70.min(all.len() - 1)])]}));
        }
    });
    mon.with(|l| l.count("exhaustive_pairs", n_all * n_all));

    // ---- all lengths around every byte boundary with adversarial patterns
    if ctx.mode.is_none() {
        let mut lens: Vec<u32> = vec![0, 1, 2, 255, 256];
        for k in 1..32u32 {
            lens.extend_from_slice(&[8 * k - 1, 8 * k, 8 * k + 1]);
        }
        lens.sort();
        lens.dedup();
        let lens = &lens;
        par_cases(ctx, &mon, "boundary", lens.len() as u64, |cc, rng, l| {
            let len = lens[cc.idx as usize];
            let mut patterns: Vec<Bits> = vec![vec![false; len as usize], vec![true; len as usize], (0..len).map(|i| i % 2 == 0).collect(), (0..len).map(|i| i % 2 == 1).collect()];
            for pos in [0u32, len.saturating_sub(1), len / 2, (len / 8) * 8, ((len / 8) * 8).saturating_sub(1)] {
                if pos < len {
                    let mut b = vec![false; len as usize];
                    b[pos as usize] = true;
                    patterns.push(b.clone());
                    let mut b = vec![true; len as usize];
                    b[pos as usize] = false;
                    patterns.push(b);
                }
            }
            for _ in 0..ctx.tier.pick(4, 24) {
                patterns.push((0..len).map(|_| rng.chance(1, 2)).collect());
            }
            for p in &patterns {
                let a = label_of(p);
                let mut partners: Vec<NodeLabel> = vec![a];
                // one bit flipped at each interesting position
                for pos in lens.iter().copied().chain([len.saturating_sub(1), len.saturating_sub(2)]) {
                    if pos < len {
                        let mut q = p.clone();
                        q[pos as usize] = !q[pos as usize];
                        partners.push(label_of(&q));
                    }
                }
                // prefixes and extensions of every interesting length
                for &k in lens.iter() {
                    if k <= len {
                        partners.push(label_of(&p[..k as usize]));
                    } else {
                        let mut q = p.clone();
                        while (q.len() as u32) < k {
                            q.push(rng.chance(1, 2));
                        }
                        partners.push(label_of(&q));
                    }
                }
                for b in &partners {
                    for (x, y) in [(&a, b), (b, &a)] {
                        for cfg in [Cfg::Wa, Cfg::Exp] {
                            let ok = with_cfg!(cfg, TC, { check_pair::<TC>(l, x, y, true, "byte-boundaries") });
                            if !ok {
                                return;
                            }
                        }
                        let gx = with_garbage(x, rng);
                        let gy = with_garbage(y, rng);
                        if !check_pair::<Exp>(l, &gx, &gy, false, "byte-boundaries+garbage") {
                            return;
                        }
                        l.case(format!("{}/{}/{:?}", x.label_len, y.label_len, x.get_prefix_ordering(*y)).as_bytes(), true);
                    }
                }
                if !check_prefixes::<Wa>(l, &a, lens, "byte-boundaries") {
                    return;
                }
                l.count("boundary_patterns", 1);
            }
        });
    }

    // ---- set operations through the hook: binary-searchable vs unsorted representation
    let set_cases = if ctx.mode.is_some() { 4 } else { 16 };
    par_cases(ctx, &mon, "sets", set_cases, |cc, rng, l| {
        let max_bits: u32 = match ctx.mode.as_deref() {
            Some("miri") => 2,
            Some(_) => 3,
            None => 4,
        };
        // all multisets of <= 4 labels of one length <= 4 bits, split over the cases
        let mut n = 0u64;
        for len in 1..=max_bits {
            let universe: Vec<NodeLabel> = (0u32..(1 << len)).map(|x| label_of(&(0..len).map(|i| (x >> (len - 1 - i)) & 1 == 1).collect::<Bits>())).collect();
            let u = universe.len();
            let mut idx = vec![0usize; 0];
            // enumerate multisets by non-decreasing index vectors of size 1..=4
            for size in 1..=4usize {
                idx.clear();
                idx.resize(size, 0);
                loop {
                    n += 1;
                    if n % set_cases == cc.idx {
                        let labels: Vec<NodeLabel> = idx.iter().map(|i| universe[*i]).collect();
                        for cfg in [Cfg::Wa, Cfg::Exp] {
                            let ok = with_cfg!(cfg, TC, { check_set::<TC>(l, &labels, rng, "small-multisets") });
                            if !ok {
                                return;
                            }
                        }
                        l.enumerated_distinct += 1;
                        l.count("small_multisets", 1);
                    }
                    // next non-decreasing vector
                    let mut p = size;
                    while p > 0 && idx[p - 1] == u - 1 {
                        p -= 1;
                    }
                    if p == 0 {
                        break;
                    }
                    let v = idx[p - 1] + 1;
                    for q in (p - 1)..size {
                        idx[q] = v;
                    }
                }
            }
        }
        // random sets of 256-bit labels around their common prefix
        if ctx.mode.is_none() {
            for _ in 0..ctx.tier.pick(60, 600) {
                let k = rng.range(1, 64) as usize;
                let shared = rng.range(0, 255) as u32;
                let base = NodeLabel::new(rng.arr32(), 256);
                let labels: Vec<NodeLabel> = (0..k)
                    .map(|_| {
                        let r = NodeLabel::new(rng.arr32(), 256);
                        let mut b = bits_of(&r);
                        let bb = bits_of(&base);
                        b[..shared as usize].copy_from_slice(&bb[..shared as usize]);
                        label_of(&b)
                    })
                    .collect();
                if !check_set::<Exp>(l, &labels, rng, "random-256bit-sets") || !check_set::<Wa>(l, &labels, rng, "random-256bit-sets") {
                    return;
                }
                l.count("random_sets", 1);
                l.case(format!("set256/{k}/{shared}").as_bytes(), true);
            }
        }
    });

    // ---- tree shape: sorted path vs unsorted (mixed label length) path, both against the reference trie
    if ctx.mode.is_none() {
        par_cases(ctx, &mon, "shape", ctx.tier.pick(64, 600), |cc, rng, l| {
            let cfg = if rng.chance(1, 2) { Cfg::Wa } else { Cfg::Exp };
            with_cfg!(cfg, TC, { block_on(shape_case::<TC>(cc, rng, l)) })
        });
    }

    let spec = Spec::new(
        "exploration",
        "EXHAUSTIVE: all pairs of canonical labels of length 0..10 bits (2047^2 pairs) x {is_prefix_of, get_prefix_ordering, get_longest_common_prefix, cmp, eq} x both configurations against a Vec<bool> model, plus garbage-beyond-length variants for the operations documented to ignore it, plus get_prefix for every length; all lengths 8k-1, 8k, 8k+1, 0,1,2,255,256 x adversarial patterns x partners (self, one bit flipped at each boundary, prefix/extension of every boundary length); set operations through the verif_hooks wrappers: ALL multisets of <= 4 equal-length labels of <= 4 bits, binary-searchable vs forced-unsorted representation, every prefix of the common prefix as partition point, contains_prefix for every prefix, random 256-bit sets; tree shape of sorted vs mixed-length (unsorted path) insertions against the reference trie. distinct: enumerated tuples are distinct by construction",
    )
    .need("exhaustive_pairs", match max_len { 10 => 4_000_000, 6 => 10_000, _ => 200 })
    .need("small_multisets", match ctx.mode.as_deref() { Some("miri") => 50, Some(_) => 100, None => 4000 });
    let mut spec = spec;
    spec.exhaustive = true;
    if ctx.mode.is_none() {
        spec = spec.need("boundary_patterns", 1000).need("shape_trees_compared", ctx.tier.pick(60, 500));
    }
    finish(ctx, &mon, spec)
}

fn elems(labels: &[NodeLabel]) -> Vec<AzksElement> {
    labels.iter().enumerate().map(|(i, l)| AzksElement { label: *l, value: AzksValue([i as u8; 32]) }).collect()
}

fn multiset(v: &[AzksElement]) -> Vec<(NodeLabel, [u8; 32])> {
    let mut m: Vec<_> = v.iter().map(|e| (e.label, e.value.0)).collect();
    m.sort();
    m
}

/// binary-searchable and unsorted representation of the same elements must agree, and agree with the model
fn check_set<TC: Configuration>(l: &mut Local, labels: &[NodeLabel], rng: &mut Rng, family: &str) -> bool {
    l.eval(1);
    let es = elems(labels);
    let sorted = ElementSet::from(es.clone());
    let mut shuffled = es.clone();
    rng.shuffle(&mut shuffled);
    let unsorted = ElementSet::from_unsorted(shuffled.clone());
    let detail = |what: &str| json!({"what": what, "labels": labels.iter().map(label_str).collect::<Vec<_>>(), "cfg": cfg_of::<TC>().name()});
    if !sorted.is_binary_searchable() {
        l.violation(format!("C17:set-not-binary-searchable/{family}"), "equal-length labels did not produce the binary-searchable representation", detail("from"));
        return false;
    }
    // common prefix
    let bit_sets: Vec<Bits> = labels.iter().map(bits_of).collect();
    let mut lcp = bit_sets[0].clone();
    for b in &bit_sets[1..] {
        lcp = m_lcp(&lcp, b);
    }
    let want_lcp = label_of(&lcp);
    let (ls, lu) = (sorted.get_longest_common_prefix::<TC>(), unsorted.get_longest_common_prefix::<TC>());
    if ls != lu || ls != want_lcp {
        l.violation(
            format!("C17:set-lcp-differs/{family}"),
            format!("common prefix: binary-searchable = {}, unsorted = {}, bit strings = {}", label_str(&ls), label_str(&lu), label_str(&want_lcp)),
            detail("get_longest_common_prefix"),
        );
        return false;
    }
    // partition at every prefix of the common prefix
    for k in 0..=lcp.len() {
        let p = label_of(&lcp[..k]);
        let (sl, sr) = ElementSet::from(es.clone()).partition(p);
        let (ul, ur) = ElementSet::from_unsorted(shuffled.clone()).partition(p);
        let want_l: Vec<AzksElement> = es.iter().filter(|e| m_ordering(&lcp[..k], &bits_of(&e.label)) == PrefixOrdering::WithZero).cloned().collect();
        let want_r: Vec<AzksElement> = es.iter().filter(|e| m_ordering(&lcp[..k], &bits_of(&e.label)) == PrefixOrdering::WithOne).cloned().collect();
        let ok = multiset(&sl.elements()) == multiset(&ul.elements())
            && multiset(&sr.elements()) == multiset(&ur.elements())
            && multiset(&sl.elements()) == multiset(&want_l)
            && multiset(&sr.elements()) == multiset(&want_r);
        if !ok {
            l.violation(
                format!("C17:set-partition-differs/{family}"),
                format!(
                    "partition at {}: binary-searchable ({} | {}), unsorted ({} | {}), bit strings ({} | {})",
                    label_str(&p),
                    sl.elements().len(),
                    sr.elements().len(),
                    ul.elements().len(),
                    ur.elements().len(),
                    want_l.len(),
                    want_r.len()
                ),
                detail("partition"),
            );
            return false;
        }
    }
    // contains_prefix for prefixes of members and for near misses
    let mut probes: Vec<Bits> = vec![vec![]];
    for b in &bit_sets {
        for k in [1usize, 2, 3, b.len().saturating_sub(1), b.len()] {
            if k <= b.len() && k >= 1 {
                probes.push(b[..k].to_vec());
                let mut q = b[..k].to_vec();
                let last = q.len() - 1;
                q[last] = !q[last];
                probes.push(q);
            }
        }
    }
    for q in probes {
        let pl = label_of(&q);
        let want = bit_sets.iter().any(|b| m_is_prefix(&q, b));
        let (a, b) = (sorted.contains_prefix(&pl), unsorted.contains_prefix(&pl));
        if a != b || a != want {
            l.violation(
                format!("C17:set-contains-prefix-differs/{family}"),
                format!("contains_prefix({}): binary-searchable = {a}, unsorted = {b}, bit strings = {want}", label_str(&pl)),
                detail("contains_prefix"),
            );
            return false;
        }
    }
    true
}

async fn shape_case<TC: Configuration>(cc: &CaseCtx, rng: &mut Rng, l: &mut Local) {
    let cfg = cfg_of::<TC>();
    let n = rng.range(1, 40) as usize;
    let leaves = crate::checks::c05::clustered_labels(rng, n);
    // a short label that is not a prefix of any leaf and of which no leaf... (disjoint subtree stand-in)
    let short = loop {
        let len = rng.range(1, 12) as u32;
        let cand = NodeLabel::new(rng.arr32(), 256).get_prefix(len);
        if !leaves.iter().any(|x| cand.is_prefix_of(x)) {
            break cand;
        }
    };
    let es: Vec<AzksElement> = leaves.iter().map(|x| AzksElement { label: *x, value: AzksValue(rng.arr32()) }).collect();
    let short_e = AzksElement { label: short, value: AzksValue(rng.arr32()) };
    l.eval(1);
    for mixed in [false, true] {
        let mut set = es.clone();
        if mixed {
            set.push(short_e);
        }
        rng.shuffle(&mut set);
        let db = AsyncInMemoryDatabase::new();
        let mgr = StorageManager::new_no_cache(db.clone());
        let mut azks = Azks::new::<TC, _>(&mgr).await.unwrap();
        if let Err(e) = azks.batch_insert_nodes::<TC, _>(&mgr, set.clone(), InsertMode::Directory, AzksParallelismConfig::disabled()).await {
            l.violation("C17:shape/insert-failed", format!("insertion of a prefix-free label set failed: {e}"), json!({"mixed": mixed}));
            return;
        }
        let got = azks.get_root_hash::<TC, _>(&mgr).await.unwrap();
        let mut rl: Vec<_> = set.iter().map(|e| (to_rlabel(&e.label), refhash::leaf_hash(cfg, &e.value.0, 1))).collect();
        let want = refhash::root_hash(cfg, &mut rl).unwrap();
        l.count("shape_trees_compared", 1);
        if got != want {
            l.violation(
                format!("C17:shape/root-differs/{}", if mixed { "mixed-length-unsorted-path" } else { "sorted-path" }),
                "tree built by batch_insert_nodes differs from the reference trie over the same labels",
                json!({"cfg": cfg.name(), "mixed": mixed, "labels": set.iter().map(|e| label_str(&e.label)).collect::<Vec<_>>()}),
            );
            return;
        }
    }
    l.case(format!("shape/{n}/{}", short.label_len).as_bytes(), true);
    if cc.idx < 1 {
        l.sample(json!({"family": "shape", "leaves": n, "short_label": label_str(&short)}));
    }
}
