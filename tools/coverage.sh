#!/bin/bash
# tools/coverage.sh [ID ...]   — which lines of akd / akd_core do the monitors' workloads actually execute?
# Builds the harness with source-based coverage instrumentation (nightly toolchain, its own target dir),
# runs the quick tier of every (or the named) check as a sub-run (evidence files are not touched), merges
# the profiles and writes coverage/REPORT.txt (per file) and coverage/UNCOVERED.txt (functions of
# akd/src and akd_core/src never entered).  A diagnostic of the machinery's reach, not a check.
set -u
cd "$(dirname "$(readlink -f "$0")")/.."
ROOT="$PWD"
export CARGO_NET_OFFLINE=true
BINDIR="$(rustc +nightly --print sysroot)/lib/rustlib/x86_64-unknown-linux-gnu/bin"
IDS="${*:-C01 C02 C03 C04 C05 C06 C07 C08 C09 C10 C11 C12 C13 C14 C15 C16 C17 C18 C19 C20}"
(cd harness && RUSTFLAGS="-Cinstrument-coverage" cargo +nightly build --release --target-dir target-cov --bin vcheck) > harness/target/build-cov.log 2>&1 || { echo "coverage build failed"; tail -5 harness/target/build-cov.log; exit 2; }
PROF="$ROOT/harness/target-cov/prof"; rm -rf "$PROF"; mkdir -p "$PROF" coverage
for ID in $IDS; do
  VERIF_SUBRUN=cov LLVM_PROFILE_FILE="$PROF/$ID-%p-%8m.profraw" harness/target-cov/release/vcheck "$ID" --root "$ROOT" --tier quick --seed "${VERIF_SEED:-1}" | tail -1
done
"$BINDIR/llvm-profdata" merge -sparse "$PROF"/*.profraw -o "$PROF/all.profdata" || exit 2
IGN='(\.cargo/registry|/rustc/|harness/src|library/std|/target)'
"$BINDIR/llvm-cov" report harness/target-cov/release/vcheck -instr-profile="$PROF/all.profdata" --ignore-filename-regex="$IGN" > coverage/REPORT.txt 2>/dev/null
"$BINDIR/llvm-cov" report harness/target-cov/release/vcheck -instr-profile="$PROF/all.profdata" --ignore-filename-regex="$IGN" --show-functions /repo/akd/src /repo/akd_core/src 2>/dev/null \
  | awk 'NF>=8 && $2+0>0 && $3==$2 {print $1}' | grep -v '^_R.*closure' | "$(command -v rustfilt || echo cat)" | sort -u > coverage/UNCOVERED.txt
echo "checks run: $IDS  (seed ${VERIF_SEED:-1}, quick tier)" >> coverage/REPORT.txt
tail -3 coverage/REPORT.txt
wc -l coverage/UNCOVERED.txt
rm -rf "$PROF"
