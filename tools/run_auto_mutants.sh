#!/bin/bash
# tools/run_auto_mutants.sh [pattern]
# "A verifier forgets one check": generates the check-deletion mutants of the client verifiers and the
# auditor (tools/gen_check_deletion_mutants.py), applies them one at a time to a SCRATCH COPY of /repo and
# /verif under /var/tmp and runs the soundness monitors until one fires.  Output per mutant:
#   KILLED   <patch> <site> by <ID>        |   SURVIVED <patch> <site> (checks tried: ...)   |   NOBUILD ...
# A surviving mutant names a verifier check that none of the adversarial families makes decisive (or a
# check that is redundant given the others — to be argued case by case in DESIGN.md section 16).
set -u
HERE="$(cd "$(dirname "$(readlink -f "$0")")/.." && pwd)"
PAT="${1:-.}"
SCR="/var/tmp/akd-am-$$"
trap 'rm -rf "$SCR"' EXIT
mkdir -p "$SCR"
rsync -a --exclude target --exclude '.git' /repo/ "$SCR/repo/"
rsync -a --exclude 'target*' --exclude '.git' --exclude replays "$HERE/" "$SCR/verif/"
(cd "$SCR/repo" && git init -q . && git add -A >/dev/null 2>&1 && git -c user.email=x@x -c user.name=x commit -qm base)
python3 "$HERE/tools/gen_check_deletion_mutants.py" "$SCR/repo" "$SCR/mut" >/dev/null
cd "$SCR/verif"
export CARGO_NET_OFFLINE=true
(cd harness && cargo build --release --bin vcheck) >/dev/null 2>&1 || { echo "run_auto_mutants: base build failed"; exit 2; }
grep -E "$PAT" "$SCR/mut/LIST" | while IFS=$'\t' read -r patch site kind what; do
  case "$site" in
    akd_core/src/verify/base.rs*)    CHECKS="C05 C06 C07 C18" ;;
    akd_core/src/verify/lookup.rs*)  CHECKS="C06 C18 C08" ;;
    akd_core/src/verify/history.rs*) CHECKS="C07 C08 C20 C18" ;;
    akd/src/auditor.rs*)             CHECKS="C09 C04" ;;
  esac
  if ! git -C "$SCR/repo" apply "$SCR/mut/$patch" 2>/dev/null; then echo "NOAPPLY  $patch $site"; continue; fi
  if ! (cd harness && cargo build --release --bin vcheck) >"$SCR/build.log" 2>&1; then
    echo "NOBUILD  $patch $site $(grep -m1 '^error' "$SCR/build.log" | cut -c1-100)"
    git -C "$SCR/repo" checkout -q -- . ; continue
  fi
  killer=""
  for ID in $CHECKS; do
    out=$(harness/target/release/vcheck "$ID" --root "$SCR/verif" --tier quick --seed 1 2>&1); rc=$?
    if [ $rc -eq 1 ] && printf '%s\n' "$out" | grep -q "^VIOLATION property=$ID "; then
      killer="$ID: $(printf '%s\n' "$out" | grep -A1 '^VIOLATION' | grep 'what:' | head -1 | cut -c9-150)"; break
    fi
    if [ $rc -ge 128 ]; then killer="$ID: process died (exit $rc)"; break; fi
  done
  if [ -n "$killer" ]; then echo "KILLED   $patch $site [$what] by $killer"; else echo "SURVIVED $patch $site [$what] (checks tried: $CHECKS)"; fi
  git -C "$SCR/repo" checkout -q -- .
done
