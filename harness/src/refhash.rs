//! From-scratch recomputation of the directory's root hash from a leaf set, written from the
//! formulas in `akd_core/src/lib.rs` (Setup parameters / Inserting into the Merkle tree) and the
//! documented differences between the two configurations.  blake3 is called directly; none of
//! akd's hashing, label or tree code is used.  Only the VRF output (label -> 256-bit node label) is
//! taken from akd (it is checked on its own in C18).

use crate::common::Cfg;

pub type D = [u8; 32];

const EXP_DOMAIN: &[u8] = b"ExampleLabel";

pub fn h(cfg: Cfg, parts: &[&[u8]]) -> D {
    let mut hasher = blake3::Hasher::new();
    if cfg == Cfg::Exp {
        hasher.update(EXP_DOMAIN);
    }
    for p in parts {
        hasher.update(p);
    }
    *hasher.finalize().as_bytes()
}

fn i2osp(x: &[u8]) -> Vec<u8> {
    let mut v = (x.len() as u64).to_be_bytes().to_vec();
    v.extend_from_slice(x);
    v
}

/// A node label as a bit string: (256-bit value with bits beyond `len` zero, len)
#[derive(Clone, Copy, Debug, PartialEq, Eq, PartialOrd, Ord, Hash)]
pub struct RLabel {
    pub val: [u8; 32],
    pub len: u32,
}

impl RLabel {
    pub fn bit(&self, i: u32) -> u8 {
        (self.val[(i / 8) as usize] >> (7 - (i % 8))) & 1
    }
    pub fn prefix(&self, len: u32) -> RLabel {
        let mut v = [0u8; 32];
        for i in 0..len.min(256) {
            if self.bit(i) == 1 {
                v[(i / 8) as usize] |= 1 << (7 - (i % 8));
            }
        }
        RLabel { val: v, len: len.min(256) }
    }
    /// serialisation used inside hashes: 4-byte big-endian length then the 32 value bytes
    pub fn bytes(&self) -> Vec<u8> {
        let mut v = self.len.to_be_bytes().to_vec();
        v.extend_from_slice(&self.val);
        v
    }
    pub fn common_prefix_len(&self, other: &RLabel) -> u32 {
        let m = self.len.min(other.len);
        let mut i = 0;
        while i < m && self.bit(i) == other.bit(i) {
            i += 1;
        }
        i
    }
}

/// the "value" of a label as it enters a parent hash
fn label_value(cfg: Cfg, l: &RLabel) -> Vec<u8> {
    match cfg {
        Cfg::Wa => h(cfg, &[&l.bytes()]).to_vec(),
        Cfg::Exp => l.bytes(),
    }
}

/// the label that stands for a missing child of the root
fn empty_label(cfg: Cfg) -> RLabel {
    match cfg {
        Cfg::Wa => RLabel { val: [1u8; 32], len: 0 },
        Cfg::Exp => {
            let mut v = [0u8; 32];
            v[0] = 1;
            RLabel { val: v, len: 0 }
        }
    }
}

fn empty_child_hash(cfg: Cfg) -> D {
    match cfg {
        Cfg::Wa => {
            let e = h(cfg, &[&[0u8]]);
            h(cfg, &[&e, &label_value(cfg, &empty_label(cfg))])
        }
        Cfg::Exp => [0u8; 32],
    }
}

fn empty_root_value(cfg: Cfg) -> D {
    match cfg {
        Cfg::Wa => h(cfg, &[&[0u8]]),
        Cfg::Exp => [0u8; 32],
    }
}

pub fn stale_commitment(cfg: Cfg) -> D {
    match cfg {
        Cfg::Wa => h(cfg, &[&[0u8]]),
        Cfg::Exp => [0u8; 32],
    }
}

pub fn commitment_key(cfg: Cfg, vrf_secret_key: &[u8]) -> D {
    h(cfg, &[vrf_secret_key])
}

pub fn commitment_nonce(cfg: Cfg, ck: &D, node_label: &RLabel, version: u64, value: &[u8]) -> D {
    match cfg {
        Cfg::Wa => h(cfg, &[ck, &node_label.bytes(), &version.to_be_bytes(), &i2osp(value)]),
        Cfg::Exp => h(cfg, &[ck, &node_label.bytes()]),
    }
}

pub fn fresh_commitment(cfg: Cfg, ck: &D, node_label: &RLabel, version: u64, value: &[u8]) -> D {
    let nonce = commitment_nonce(cfg, ck, node_label, version, value);
    h(cfg, &[&i2osp(value), &i2osp(&nonce)])
}

pub fn leaf_hash(cfg: Cfg, commitment: &D, epoch: u64) -> D {
    h(cfg, &[commitment, &epoch.to_be_bytes()])
}

fn parent_hash(cfg: Cfg, l: (&D, &RLabel), r: (&D, &RLabel)) -> D {
    match cfg {
        Cfg::Wa => {
            let hl = h(cfg, &[l.0, &label_value(cfg, l.1)]);
            let hr = h(cfg, &[r.0, &label_value(cfg, r.1)]);
            h(cfg, &[&hl, &hr])
        }
        Cfg::Exp => h(cfg, &[l.0, &label_value(cfg, l.1), r.0, &label_value(cfg, r.1)]),
    }
}

fn finalize(cfg: Cfg, root_val: &D) -> D {
    match cfg {
        Cfg::Wa => {
            let root = RLabel { val: [0u8; 32], len: 0 };
            h(cfg, &[root_val, &label_value(cfg, &root)])
        }
        Cfg::Exp => *root_val,
    }
}

/// (label, hash as it enters the parent) of the compressed subtree over `leaves`
/// (sorted, distinct, all 256 bit, non-empty).
fn subtree(cfg: Cfg, leaves: &[(RLabel, D)]) -> (RLabel, D) {
    if leaves.len() == 1 {
        return leaves[0];
    }
    let first = &leaves[0].0;
    let last = &leaves[leaves.len() - 1].0;
    let p = first.common_prefix_len(last);
    let split = leaves.partition_point(|(l, _)| l.bit(p) == 0);
    let (ll, lh) = subtree(cfg, &leaves[..split]);
    let (rl, rh) = subtree(cfg, &leaves[split..]);
    (first.prefix(p), parent_hash(cfg, (&lh, &ll), (&rh, &rl)))
}

/// Root hash of the canonical compressed binary trie over `(node label, leaf hash)` pairs.
/// The root is never compressed: its children are the subtrees of labels starting with 0 / 1.
pub fn root_hash(cfg: Cfg, leaves: &mut Vec<(RLabel, D)>) -> Result<D, String> {
    leaves.sort();
    for w in leaves.windows(2) {
        if w[0].0 == w[1].0 {
            return Err("duplicate node label in leaf set".into());
        }
    }
    if leaves.is_empty() {
        return Ok(finalize(cfg, &empty_root_value(cfg)));
    }
    let split = leaves.partition_point(|(l, _)| l.bit(0) == 0);
    let e = (empty_label(cfg), empty_child_hash(cfg));
    let l = if split > 0 { subtree(cfg, &leaves[..split]) } else { e };
    let r = if split < leaves.len() { subtree(cfg, &leaves[split..]) } else { e };
    Ok(finalize(cfg, &parent_hash(cfg, (&l.1, &l.0), (&r.1, &r.0))))
}

/// number of nodes (root + interior + leaves) of the canonical trie
pub fn node_count(leaves: &[(RLabel, D)]) -> u64 {
    fn interior(ls: &[(RLabel, D)]) -> u64 {
        if ls.len() <= 1 {
            return 0;
        }
        let p = ls[0].0.common_prefix_len(&ls[ls.len() - 1].0);
        let split = ls.partition_point(|(l, _)| l.bit(p) == 0);
        1 + interior(&ls[..split]) + interior(&ls[split..])
    }
    if leaves.is_empty() {
        return 1;
    }
    let split = leaves.partition_point(|(l, _)| l.bit(0) == 0);
    1 + leaves.len() as u64 + interior(&leaves[..split]) + interior(&leaves[split..])
}
