//! C14 — results do not depend on parallelism, caching, preloading, batching or restarts.
//! Differential: one history through many configurations, canonical transcripts compared.

use crate::checks::c13::Reader;
use crate::checks::histcase::HistCase;
use crate::common::*;
use crate::gen::history_json;
use crate::model::{Applied, Batch};
use crate::mon::*;
use crate::prover::TreeView;
use crate::refhash;
use crate::rng::Rng;
use crate::transcript::{self, Opts, Transcript};
use crate::with_cfg;
use crate::world::*;
use crate::xdb::XDb;
use serde_json::json;

#[derive(Clone, Copy, Debug, PartialEq, Eq)]
enum Restart {
    Never,
    EveryCall,
    Random,
}

#[derive(Clone, Copy, Debug)]
struct Point {
    ins: AzksParallelismOption,
    pre: AzksParallelismOption,
    cache: CacheOpt,
    multi_thread: bool,
    restart: Restart,
    read_only: bool,
}

impl Point {
    fn name(&self) -> String {
        format!(
            "{}|{}|{}|{:?}|{}",
            par_name(&AzksParallelismConfig { insertion: self.ins, preload: self.pre }),
            self.cache.name(),
            if self.multi_thread { "multi" } else { "current" },
            self.restart,
            if self.read_only { "ro" } else { "rw" }
        )
    }
    fn baseline() -> Self {
        Point { ins: AzksParallelismOption::Disabled, pre: AzksParallelismOption::Disabled, cache: CacheOpt::None, multi_thread: false, restart: Restart::Never, read_only: false }
    }
    fn random(rng: &mut Rng) -> Self {
        let pars = [
            AzksParallelismOption::Disabled,
            AzksParallelismOption::Static(1),
            AzksParallelismOption::Static(2),
            AzksParallelismOption::Static(3),
            AzksParallelismOption::Static(7),
            AzksParallelismOption::Static(32),
            AzksParallelismOption::AvailableOr(32),
        ];
        Point {
            ins: *rng.pick(&pars),
            pre: *rng.pick(&pars),
            cache: *rng.pick(&[CacheOpt::None, CacheOpt::Default, CacheOpt::ShortLife, CacheOpt::TinyMem]),
            multi_thread: rng.chance(1, 3),
            restart: *rng.pick(&[Restart::Never, Restart::Never, Restart::EveryCall, Restart::Random]),
            read_only: rng.chance(1, 3),
        }
    }
}

fn build_name() -> &'static str {
    if cfg!(feature = "full") {
        "full"
    } else {
        "min"
    }
}

pub fn run(ctx: &Ctx) -> i32 {
    let mon = Mon::new();
    let n_hist = ctx.tier.pick(64, 400);
    // dump mode (second build): baseline transcript digests only, one line per history
    if let Some(path) = ctx.mode.as_deref().and_then(|m| m.strip_prefix("dump:")) {
        let out = std::sync::Mutex::new(Vec::<(u64, String)>::new());
        par_cases(ctx, &mon, "hist", n_hist, |cc, rng, l| {
            let case = HistCase::random(rng, ctx.tier.pick(8, 14), 8, 5, cc.idx % 5 == 0);
            let _seed2 = rng.next_u64();
            let ts = with_cfg!(case.cfg, TC, { run_point::<TC>(&case, Point::baseline(), 7, l) });
            if let Some(ts) = ts {
                let line = ts.iter().map(|t| format!("{:016x}", transcript::digest(t))).collect::<Vec<_>>().join(",");
                out.lock().unwrap().push((cc.idx, line));
            }
        });
        let mut v = out.into_inner().unwrap();
        v.sort();
        let body: String = v.iter().map(|(i, s)| format!("{i} {s}\n")).collect();
        if std::fs::write(path, body).is_err() {
            eprintln!("cannot write {path}");
            return 2;
        }
        println!("C14 dump ({}) wrote {} histories to {path}", build_name(), v.len());
        return 0;
    }
    let other_dump: Option<std::collections::HashMap<u64, String>> = std::env::var("VERIF_C14_OTHER_DUMP").ok().and_then(|p| std::fs::read_to_string(p).ok()).map(|t| {
        t.lines().filter_map(|l| l.split_once(' ').map(|(a, b)| (a.parse().unwrap_or(u64::MAX), b.to_string()))).collect()
    });
    let other_dump = &other_dump;
    let points_per_history = ctx.tier.pick(12, 28);
    par_cases(ctx, &mon, "hist", n_hist, |cc, rng, l| {
        let case = HistCase::random(rng, ctx.tier.pick(8, 14), 8, 5, cc.idx % 5 == 0);
        let seed2 = rng.next_u64();
        let Some(base) = with_cfg!(case.cfg, TC, { run_point::<TC>(&case, Point::baseline(), 7, l) }) else { return };
        l.count("baseline_transcripts", base.len() as u64);
        // feature matrix: the other build's baseline transcripts for the same seed
        if let Some(d) = other_dump {
            let mine = base.iter().map(|t| format!("{:016x}", transcript::digest(t))).collect::<Vec<_>>().join(",");
            l.count("feature_builds_compared", 1);
            match d.get(&cc.idx) {
                Some(theirs) if *theirs == mine => {}
                other => {
                    l.violation(
                        "C14:feature-set-changes-results",
                        format!("history {}: transcripts of the build without greedy_lookup_preload/preload_history/parallel_vrf differ from the default build", cc.idx),
                        json!({"mine": mine, "theirs": other, "history": history_json(&case.hist.batches)}),
                    );
                    return;
                }
            }
        }
        let mut r2 = Rng::new(seed2);
        for pi in 0..points_per_history {
            let p = Point::random(&mut r2);
            l.eval(1);
            let Some(ts) = with_cfg!(case.cfg, TC, { run_point::<TC>(&case, p, r2.next_u64(), l) }) else { return };
            l.count("matrix_points_run", 1);
            l.case(format!("{}/{}", cc.idx, p.name()).as_bytes(), true);
            for (ei, (a, b)) in base.iter().zip(ts.iter()).enumerate() {
                l.count("transcripts_compared", 1);
                if let Some((key, want, got)) = transcript::first_diff(a, b) {
                    let dim = if p.cache != CacheOpt::None { "cache" } else if p.restart != Restart::Never { "restart" } else if p.multi_thread { "runtime" } else if p.read_only { "read-only" } else { "parallelism" };
                    l.violation(
                        format!("C14:matrix-point-differs/{}/{dim}", key.split(' ').next().unwrap_or("?")),
                        format!("configuration {} answers '{key}' with '{got}' where the baseline (uncached, sequential) says '{want}' (snapshot #{ei})", p.name()),
                        json!({"cfg": case.cfg.name(), "point": p.name(), "line": key, "baseline": want, "got": got, "history": history_json(&case.hist.batches)}),
                    );
                    return;
                }
            }
            if base.len() != ts.len() {
                l.violation("C14:matrix-point-differs/snapshots", "different number of effective epochs", json!({"point": p.name()}));
                return;
            }
            if pi == 0 && cc.idx < 2 {
                l.sample(json!({"case": cc.id, "cfg": case.cfg.name(), "matrix_point": p.name(), "snapshots": ts.len(), "first_lines": ts.last().map(|t| t.iter().take(3).map(|x| format!("{} => {}", x.key, x.val)).collect::<Vec<_>>())}));
            }
        }
    });
    // ---- leaf order and sub-batches within one epoch
    // ---- the VRF key storage answers batch derivations in another order than asked
    par_cases(ctx, &mon, "vrforder", ctx.tier.pick(48, 400), |cc, rng, l| {
        let case = HistCase::random(rng, ctx.tier.pick(8, 14), 8, 6, cc.idx % 5 == 0);
        let sseed = rng.next_u64();
        with_cfg!(case.cfg, TC, { block_on(vrf_order_case::<TC>(cc, &case, sseed, l)) })
    });
    par_cases(ctx, &mon, "order", ctx.tier.pick(64, 300), |cc, rng, l| {
        let cfg = if rng.chance(1, 2) { Cfg::Wa } else { Cfg::Exp };
        with_cfg!(cfg, TC, { block_on(order_case::<TC>(ctx, cc, rng, l)) });
    });
    let mut spec = Spec::new(
        "exploration",
        "per generated history: baseline (uncached, parallelism disabled, current-thread runtime, no restarts) vs 12 (quick) / 28 (thorough) random points of the matrix insertion/preload parallelism {Disabled, Static 1,2,3,7,32, AvailableOr(32)} x cache {none, default, 2 ms lifetime, 512 B limit} x runtime {current-thread, multi-thread(4)} x restart {never, Directory+manager+cache re-created before every call, at random points} x {Directory, ReadOnlyDirectory}; after every effective epoch a canonical transcript (epoch hash; per label lookup result, histories for 3 params; audits of 5 ranges; error kinds of invalid requests) is compared line by line. A second build of the harness without greedy_lookup_preload/preload_history/parallel_vrf dumps baseline transcript digests for the same seeds and the two builds are compared. Leaf order / sub-batches: one leaf set inserted in 20 permutations and 20 random splits into 1-5 sub-batches inside one epoch: root hash, node count and the latest state of every node must be identical. distinct = (history, matrix point); all non-trivial",
    )
    .need("matrix_points_run", ctx.tier.pick(200, 5000))
    .need("transcripts_compared", ctx.tier.pick(1000, 30000))
    .need("order_variants_compared", ctx.tier.pick(300, 3000));
    if other_dump.is_some() {
        spec = spec.need("feature_builds_compared", ctx.tier.pick(20, 300));
    }
    finish(ctx, &mon, spec)
}

/// Run the history under one matrix point; one transcript per effective epoch.
fn run_point<TC: Configuration>(case: &HistCase, p: Point, seed: u64, l: &mut Local) -> Option<Vec<Transcript>> {
    let fut = run_point_async::<TC>(case.hist.batches.clone(), case.hist.universe.clone(), p, seed);
    let r = if p.multi_thread {
        let rt = tokio::runtime::Builder::new_multi_thread().worker_threads(4).enable_time().build().expect("rt");
        rt.block_on(fut)
    } else {
        block_on(fut)
    };
    match r {
        Ok(ts) => Some(ts),
        Err(e) => {
            l.violation(format!("C14:run-failed/{}", if p.cache != CacheOpt::None { "cache" } else { "other" }), format!("configuration {} failed where the baseline does not: {e}", p.name()), json!({"point": p.name(), "history": history_json(&case.hist.batches)}));
            None
        }
    }
}

async fn run_point_async<TC: Configuration>(batches: Vec<Batch>, universe: Vec<Vec<u8>>, p: Point, seed: u64) -> Result<Vec<Transcript>, String> {
    let mut rng = Rng::new(seed);
    let db = XDb::new();
    let par = AzksParallelismConfig { insertion: p.ins, preload: p.pre };
    let vrf = KeyVrf::hard_coded();
    let open = |db: &XDb| {
        let mgr = p.cache.manager(db.clone());
        let vrf = vrf.clone();
        async move { Dir::<TC>::new(mgr, vrf, par).await.map_err(|e| e.to_string()) }
    };
    let mut dir = open(&db).await?;
    let pk = dir.get_public_key().await.map_err(|e| e.to_string())?.as_bytes().to_vec();
    let mut published: Vec<Digest> = vec![dir.get_epoch_hash().await.map_err(|e| e.to_string())?.1];
    let mut model = crate::model::Model::new();
    let mut out = vec![];
    for b in &batches {
        let restart_now = match p.restart {
            Restart::Never => false,
            Restart::EveryCall => true,
            Restart::Random => rng.chance(1, 3),
        };
        if restart_now {
            dir = open(&db).await?;
        }
        let r = dir.publish(akd_batch(b)).await;
        match (model.apply(b), r) {
            (Applied::Epoch(e, _), Ok(eh)) => {
                if eh.0 != e {
                    return Err(format!("publish returned epoch {} instead of {e}", eh.0));
                }
                published.push(eh.1);
            }
            (Applied::Epoch(..), Err(e)) => return Err(format!("publish failed: {e}")),
            (Applied::Rejected, Ok(_)) => return Err("duplicate batch accepted".into()),
            _ => continue,
        }
        if restart_now || p.restart == Restart::EveryCall {
            dir = open(&db).await?;
        }
        let reader = if p.read_only {
            Reader::R(RoDir::<TC>::new(p.cache.manager(db.clone()), vrf.clone(), par).await.map_err(|e| e.to_string())?)
        } else {
            Reader::W(dir.clone())
        };
        let o = Opts { allow_missing: false, published: published.clone() };
        out.push(transcript::take::<TC>(&reader, &pk, &universe, &o).await);
    }
    Ok(out)
}

/// the latest state of every node, canonically
fn tree_state<TC: Configuration>(v: &TreeView<TC>) -> Vec<String> {
    let mut s: Vec<String> = v
        .nodes
        .values()
        .map(|n| format!("{} t={:?} l={:?} r={:?} h={} le={} mde={}", label_str(&n.label), n.node_type, n.left_child.map(|x| label_str(&x)), n.right_child.map(|x| label_str(&x)), hex::encode(n.hash.0), n.last_epoch, n.min_descendant_epoch))
        .collect();
    s.sort();
    s
}

async fn order_case<TC: Configuration>(ctx: &Ctx, cc: &CaseCtx, rng: &mut Rng, l: &mut Local) {
    let cfg = crate::world::cfg_of::<TC>();
    // an existing tree (epochs 1..k) and a new leaf set inserted at epoch k+1 in many ways
    let n0 = rng.range(0, 30) as usize;
    let n1 = rng.range(1, ctx.tier.pick(60, 200)) as usize;
    let all = crate::checks::c05::clustered_labels(rng, n0 + n1);
    let old: Vec<AzksElement> = all[..n0].iter().map(|x| AzksElement { label: *x, value: AzksValue(rng.arr32()) }).collect();
    let new: Vec<AzksElement> = all[n0..].iter().map(|x| AzksElement { label: *x, value: AzksValue(rng.arr32()) }).collect();
    let mut reference: Option<(Digest, u64, Vec<String>)> = None;
    let variants = ctx.tier.pick(16, 40);
    for vi in 0..variants {
        let db = AsyncInMemoryDatabase::new();
        let mgr = StorageManager::new_no_cache(db.clone());
        let mut azks = Azks::new::<TC, _>(&mgr).await.unwrap();
        let par = if vi % 4 == 3 { AzksParallelismConfig::default() } else { AzksParallelismConfig::disabled() };
        if !old.is_empty() {
            azks.batch_insert_nodes::<TC, _>(&mgr, old.clone(), InsertMode::Directory, par).await.unwrap();
        }
        let epoch_new = azks.latest_epoch + 1;
        let mut perm = new.clone();
        let desc;
        if vi % 2 == 0 {
            rng.shuffle(&mut perm);
            desc = "permutation".to_string();
            azks.batch_insert_nodes::<TC, _>(&mgr, perm, InsertMode::Directory, par).await.unwrap();
        } else {
            rng.shuffle(&mut perm);
            let k = rng.range(1, 5.min(perm.len() as u64)) as usize;
            let mut cuts: Vec<usize> = (0..k - 1).map(|_| rng.usize_below(perm.len() + 1)).collect();
            cuts.sort();
            cuts.push(perm.len());
            let mut start = 0;
            desc = format!("split into {k} sub-batches at {cuts:?}");
            for c in cuts {
                if c > start {
                    // same epoch for every sub-batch, as the auditor does
                    azks.latest_epoch = epoch_new - 1;
                    azks.batch_insert_nodes::<TC, _>(&mgr, perm[start..c].to_vec(), InsertMode::Directory, par).await.unwrap();
                }
                start = c;
            }
        }
        let root = azks.get_root_hash::<TC, _>(&mgr).await.unwrap();
        let view = TreeView::<TC>::load(&db, azks.latest_epoch).await;
        let state = tree_state(&view);
        l.eval(1);
        l.count("order_variants_compared", 1);
        match &reference {
            None => {
                // the first variant is checked against the reference trie
                let mut rl: Vec<_> = old.iter().map(|e| (to_rlabel(&e.label), refhash::leaf_hash(cfg, &e.value.0, 1))).collect();
                rl.extend(new.iter().map(|e| (to_rlabel(&e.label), refhash::leaf_hash(cfg, &e.value.0, epoch_new))));
                let want = refhash::root_hash(cfg, &mut rl).unwrap();
                if want != root {
                    l.violation("C14:order/root-differs-from-reference", "tree root differs from the reference trie", json!({"old": n0, "new": n1}));
                    return;
                }
                reference = Some((root, azks.num_nodes, state));
            }
            Some((r0, n_nodes, s0)) => {
                if *r0 != root || *n_nodes != azks.num_nodes || *s0 != state {
                    let what = if *r0 != root { "root hash" } else if *n_nodes != azks.num_nodes { "node count" } else { "node states" };
                    let diff = s0.iter().zip(state.iter()).find(|(a, b)| a != b).map(|(a, b)| format!("{a}  VS  {b}"));
                    l.violation(
                        format!("C14:order/{}", what.replace(' ', "-")),
                        format!("inserting the same leaf set as a {desc} gives a different {what}"),
                        json!({"cfg": cfg.name(), "old_leaves": n0, "new_leaves": n1, "variant": desc, "first_differing_node": diff, "parallel": vi % 4 == 3}),
                    );
                    return;
                }
            }
        }
    }
    l.case(format!("order/{n0}/{n1}").as_bytes(), true);
    if cc.idx < 1 {
        l.sample(json!({"case": cc.id, "family": "order", "old_leaves": n0, "new_leaves": n1, "variants": variants}));
    }
}

/// Same history through a directory with the stock key storage and through one whose key storage
/// returns the (correct) node labels of a batch in another order: epoch hashes must be equal after
/// every publish, and every lookup / complete history of the second directory must verify to the model.
async fn vrf_order_case<TC: Configuration>(cc: &CaseCtx, case: &HistCase, sseed: u64, l: &mut Local) {
    use crate::xdb::XDb;
    let Ok(mut w) = World::<TC>::new(CacheOpt::None, AzksParallelismConfig::disabled(), KeyVrf::hard_coded()).await else {
        l.inconclusive("Directory::new failed");
        return;
    };
    let db2 = XDb::new();
    let mgr2 = case.cache.manager(db2.clone());
    let Ok(dir2) = Directory::<TC, XDb, ShufVrf>::new(mgr2, ShufVrf(KeyVrf::hard_coded(), sseed), case.par).await else {
        l.inconclusive("Directory::new (shuffling key storage) failed");
        return;
    };
    let hist = history_json(&case.hist.batches);
    for (bi, batch) in case.hist.batches.iter().enumerate() {
        let (_a, r1) = w.publish(batch).await;
        let r2 = dir2.publish(akd_batch(batch)).await;
        l.eval(1);
        let detail = json!({"cfg": case.cfg.name(), "cache": case.cache.name(), "par": par_name(&case.par), "order_seed": sseed, "batch_index": bi, "history": hist});
        match (&r1, &r2) {
            (Ok(a), Ok(b)) if a == b => l.count("vrf_order_epochs_compared", 1),
            (Err(_), Err(_)) => l.count("vrf_order_both_refused", 1),
            (a, b) => {
                l.violation(
                    "C14:vrf-answer-order/publish-differs",
                    format!("publish #{bi} returns {:?} with the stock key storage but {:?} when the key storage answers the batch in another order", a.as_ref().map(|e| (e.0, hex::encode(e.1))).map_err(|e| e.to_string()), b.as_ref().map(|e| (e.0, hex::encode(e.1))).map_err(|e| e.to_string())),
                    detail,
                );
                return;
            }
        }
        if batch.len() >= 2 {
            l.case(format!("vrforder/{}/{}", sseed % 3, batch.len().min(6)).as_bytes(), true);
        }
    }
    let epoch = w.model.epoch;
    if epoch == 0 {
        return;
    }
    let pk = w.pk.clone();
    for label in w.model.labels() {
        let want = w.model.latest(&label, epoch).cloned();
        match dir2.lookup(AkdLabel(label.clone())).await {
            Ok((p, eh)) => match akd::client::lookup_verify::<TC>(&pk, eh.1, eh.0, AkdLabel(label.clone()), p) {
                Ok(vr) if want.as_ref().map(|m| ver_matches(m, &vr)).unwrap_or(false) && eh.1 == w.published[epoch as usize] => l.count("vrf_order_lookups_verified", 1),
                other => {
                    l.violation("C14:vrf-answer-order/lookup-differs", format!("lookup of {} on the directory with the re-ordering key storage: {:?}, model {:?}", hx(&label), other.map(|v| vr_json(&v)), want.map(|m| ver_json(&m))), json!({"cfg": case.cfg.name(), "order_seed": sseed, "history": hist}));
                    return;
                }
            },
            Err(e) => {
                l.violation("C14:vrf-answer-order/lookup-fails", format!("lookup of {} fails on the directory with the re-ordering key storage: {e}", hx(&label)), json!({"cfg": case.cfg.name(), "order_seed": sseed, "history": hist}));
                return;
            }
        }
    }
    if cc.idx < 1 {
        l.sample(json!({"case": cc.id, "family": "vrf answer order", "order_seed": sseed, "epochs": epoch}));
    }
}
