#!/bin/bash
# ./sanitize.sh <ID>       (called by ./check <ID> thorough after the main run held)
#
# Re-runs the SAME monitors (same oracles) of one property on instrumented builds of akd + harness:
#   dev      dev profile: overflow checks + debug assertions (a panic inside akd = violation)
#   tsan     ThreadSanitizer   (nightly, -Zbuild-std)   multi-thread stress modes
#   asan     AddressSanitizer  (nightly)                decoders, cache churn
#   miri     Miri              (nightly)                crypto-free mini workloads only
#   memcheck valgrind memcheck on the plain release binary (second opinion, small workloads)
#
# Verdict rules (DESIGN.md section 4):
#   * a sub-run whose oracle fires prints its own VIOLATION line                       -> exit 1
#   * a sanitizer report with a frame in akd / akd_core                                -> VIOLATION, exit 1
#   * a report with harness frames only, a sub-run that dies or times out              -> recorded as
#     "inconclusive sub-run" in evidence, exit code unchanged (the main run already decided the property;
#     the add-on only adds executions)
#   * a report with foreign frames only (tokio, dashmap, std)                          -> recorded
#   * a tool that cannot be built here, or whose canary (a deliberate defect) stays silent -> "unavailable"
# What every sub-run observed is merged into evidence/<ID>.json under coverage.observed.sanitizers.
set -u
cd "$(dirname "$(readlink -f "$0")")"
ROOT="$PWD"
ID="$1"
export CARGO_NET_OFFLINE=true
SEED="${VERIF_SEED:-1}"
TGT=x86_64-unknown-linux-gnu
LOGS="$ROOT/harness/target/sanlogs"; mkdir -p "$LOGS" "$ROOT/harness/target/subruns" "$ROOT/replays"
SUMMARY="$ROOT/harness/target/subruns/$ID-sanitize.jsonl"; : > "$SUMMARY"
rc=0
SUBRUN_TIMEOUT="${VERIF_SUBRUN_TIMEOUT:-1500}"

note() { echo "sanitize[$ID]: $*"; }

# record <tool> <name> <status> <extra-json>
record() { local extra="${4:-}"; [ -n "$extra" ] || extra='{}'; jq -nc --arg tool "$1" --arg name "$2" --arg status "$3" --argjson extra "$extra" '{tool:$tool, subrun:$name, status:$status} + $extra' >> "$SUMMARY"; }

build() { # build <tool> ; echoes path of the binary, returns 1 when unavailable
  local tool="$1" log="$LOGS/build-$tool.log"
  case "$tool" in
    dev)
      (cd harness && cargo build --bin vcheck) >"$log" 2>&1 || return 1
      echo "$ROOT/harness/target/debug/vcheck" ;;
    tsan)
      (cd harness && RUSTFLAGS="-Zsanitizer=thread" cargo +nightly build --release -Zbuild-std --target $TGT --target-dir target-tsan --bin vcheck) >"$log" 2>&1 || return 1
      echo "$ROOT/harness/target-tsan/$TGT/release/vcheck" ;;
    asan)
      (cd harness && RUSTFLAGS="-Zsanitizer=address -Cforce-frame-pointers=yes" cargo +nightly build --release --target $TGT --target-dir target-asan --bin vcheck) >"$log" 2>&1 || return 1
      echo "$ROOT/harness/target-asan/$TGT/release/vcheck" ;;
    memcheck)
      command -v valgrind >/dev/null || return 1
      echo "$ROOT/harness/target/release/vcheck" ;;
  esac
}

canary() { # canary <tool> <bin> : 0 when the deliberate defect IS reported
  local tool="$1" bin="$2" out="$LOGS/canary-$tool.log"
  case "$tool" in
    dev)  "$bin" CANARY --mode overflow >"$out" 2>&1; grep -q "attempt to add with overflow" "$out" ;;
    tsan) TSAN_OPTIONS="halt_on_error=0 exitcode=0" "$bin" CANARY --mode race >"$out" 2>&1; grep -q "WARNING: ThreadSanitizer: data race" "$out" ;;
    asan) ASAN_OPTIONS="detect_leaks=0" "$bin" CANARY --mode heap >"$out" 2>&1; grep -q "AddressSanitizer: heap-use-after-free" "$out" ;;
    memcheck) valgrind -q --error-exitcode=0 "$bin" CANARY --mode heap >"$out" 2>&1; grep -q "Invalid read" "$out" ;;
  esac
}

# subrun <tool> <bin> <name> <vcheck args...>
subrun() {
  local tool="$1" bin="$2" name="$3"; shift 3
  local out="$LOGS/$ID-$name.out" sl="$LOGS/$ID-$name.san"
  rm -f "$sl"* "$ROOT/harness/target/subruns/$ID-$name.json"
  local t0=$(date +%s) r
  case "$tool" in
    dev)
      VERIF_SUBRUN="$name" timeout "$SUBRUN_TIMEOUT" "$bin" "$ID" --root "$ROOT" --seed "$SEED" "$@" >"$out" 2>&1; r=$? ;;
    tsan)
      VERIF_SUBRUN="$name" TSAN_OPTIONS="halt_on_error=0 exitcode=0 log_path=$sl second_deadlock_stack=1 history_size=4" timeout "$SUBRUN_TIMEOUT" "$bin" "$ID" --root "$ROOT" --seed "$SEED" "$@" >"$out" 2>&1; r=$? ;;
    asan)
      VERIF_SUBRUN="$name" ASAN_OPTIONS="halt_on_error=1 detect_leaks=1 log_path=$sl abort_on_error=0 exitcode=99" timeout "$SUBRUN_TIMEOUT" "$bin" "$ID" --root "$ROOT" --seed "$SEED" "$@" >"$out" 2>&1; r=$? ;;
    memcheck)
      VERIF_SUBRUN="$name" timeout "$SUBRUN_TIMEOUT" valgrind -q --error-exitcode=0 --log-file="$sl.log" --num-callers=30 "$bin" "$ID" --root "$ROOT" --seed "$SEED" --workers 4 "$@" >"$out" 2>&1; r=$? ;;
  esac
  local wall=$(( $(date +%s) - t0 ))
  local line; line=$(grep -E "^$ID (quick|thorough) seed=" "$out" | tail -1)
  local rep='{}'
  if [ "$tool" != dev ]; then
    rep=$(python3 "$ROOT/tools/san_reports.py" "$tool" "$sl" 2>/dev/null || echo '{}')
  fi
  local n_repo n_harness n_foreign
  n_repo=$(echo "$rep" | jq -r '.distinct_repo // 0'); n_harness=$(echo "$rep" | jq -r '.distinct_harness // 0'); n_foreign=$(echo "$rep" | jq -r '.distinct_foreign // 0')
  local obs='{}'
  [ -s "$ROOT/harness/target/subruns/$ID-$name.json" ] && obs=$(jq -c '{evaluations:.coverage.evaluations, distinct_nontrivial:.coverage.distinct_nontrivial, observed:.coverage.observed}' "$ROOT/harness/target/subruns/$ID-$name.json" 2>/dev/null || echo '{}')
  local extra; extra=$(jq -nc --arg line "$line" --argjson wall "$wall" --argjson exit "$r" --argjson rep "$rep" --argjson obs "$obs" --arg args "$*" \
       '{args:$args, exit:$exit, wall_s:$wall, summary_line:$line, monitors:$obs, reports:{blocks:($rep.report_blocks//0), in_akd:($rep.repo//{}), harness_only:($rep.harness//{}), foreign_only:($rep.foreign//{})}}')
  if grep -q "^VIOLATION property=$ID " "$out"; then
    grep -A1 "^VIOLATION property=$ID " "$out"
    note "$name: the oracle fired under $tool"
    record "$tool" "$name" "violated (oracle)" "$extra"; rc=1; return
  fi
  if [ "$n_repo" -gt 0 ]; then
    local rp="replays/$ID-$name-report.txt"
    echo "$rep" | jq -r '.first_repo_report // ""' > "$ROOT/$rp"
    echo "VIOLATION property=$ID replay=$rp"
    echo "  what: $tool reported $(echo "$rep" | jq -r '.repo | keys[0]') while running ./sanitize.sh sub-run '$name' (vcheck $ID $*)"
    record "$tool" "$name" "violated (sanitizer report in akd)" "$extra"; rc=1; return
  fi
  if [ $r -eq 124 ]; then note "$name: timed out after ${SUBRUN_TIMEOUT}s (inconclusive sub-run)"; record "$tool" "$name" "inconclusive (timeout)" "$extra"; return; fi
  if [ "$n_harness" -gt 0 ]; then note "$name: $tool report in harness frames only (inconclusive sub-run)"; record "$tool" "$name" "inconclusive (report in the harness)" "$extra"; return; fi
  if [ $r -ne 0 ] || [ -z "$line" ]; then note "$name: sub-run ended with exit $r (inconclusive sub-run): $(tail -2 "$out" | tr '\n' ' ' | cut -c1-200)"; record "$tool" "$name" "inconclusive (exit $r)" "$extra"; return; fi
  note "$name: held under $tool (${wall}s, $n_foreign foreign report kinds) — $line"
  record "$tool" "$name" "held" "$extra"
}

# with_tool <tool> <function-that-runs-subruns>
declare -A BIN
prepare() {
  local tool="$1" b
  [ -n "${BIN[$tool]:-}" ] && return 0
  if ! b=$(build "$tool"); then note "$tool: build unavailable here (see $LOGS/build-$tool.log)"; record "$tool" "-" "unavailable (build failed)"; return 1; fi
  if ! canary "$tool" "$b"; then note "$tool: canary defect was NOT reported — instrumentation not active, sub-runs skipped"; record "$tool" "-" "unavailable (canary silent)"; return 1; fi
  BIN[$tool]="$b"; return 0
}

miri_run() { # miri_run <name> <vcheck args...>   (crypto-free workloads only)
  local name="$1"; shift
  local out="$LOGS/$ID-$name.out"
  rm -f "$ROOT/harness/target/subruns/$ID-$name.json"
  local t0=$(date +%s) r
  (cd harness && VERIF_SUBRUN="$name" MIRIFLAGS="-Zmiri-disable-isolation -Zmiri-ignore-leaks ${MIRI_EXTRA:-}" timeout "$SUBRUN_TIMEOUT" \
      cargo +nightly miri run --target-dir target-miri --bin vcheck -- "$ID" --root "$ROOT" --seed "$SEED" --workers 1 "$@") >"$out" 2>&1; r=$?
  local wall=$(( $(date +%s) - t0 ))
  local line; line=$(grep -E "^$ID (quick|thorough) seed=" "$out" | tail -1)
  local rep; rep=$(python3 "$ROOT/tools/san_reports.py" miri "$out" 2>/dev/null || echo '{}')
  local n_repo n_any
  n_repo=$(echo "$rep" | jq -r '.distinct_repo // 0'); n_any=$(echo "$rep" | jq -r '.report_blocks // 0')
  local obs='{}'
  [ -s "$ROOT/harness/target/subruns/$ID-$name.json" ] && obs=$(jq -c '{evaluations:.coverage.evaluations, distinct_nontrivial:.coverage.distinct_nontrivial, observed:.coverage.observed}' "$ROOT/harness/target/subruns/$ID-$name.json" 2>/dev/null || echo '{}')
  local extra; extra=$(jq -nc --arg line "$line" --argjson wall "$wall" --argjson exit "$r" --argjson rep "$rep" --argjson obs "$obs" --arg args "$* ${MIRI_EXTRA:-}" \
       '{args:$args, exit:$exit, wall_s:$wall, summary_line:$line, monitors:$obs, reports:{blocks:($rep.report_blocks//0), in_akd:($rep.repo//{}), harness_only:($rep.harness//{}), foreign_only:($rep.foreign//{})}}')
  if grep -q "^VIOLATION property=$ID " "$out"; then grep -A1 "^VIOLATION property=$ID " "$out"; record miri "$name" "violated (oracle)" "$extra"; rc=1; return; fi
  if [ "$n_repo" -gt 0 ]; then
    local rp="replays/$ID-$name-report.txt"; echo "$rep" | jq -r '.first_repo_report // ""' > "$ROOT/$rp"
    echo "VIOLATION property=$ID replay=$rp"; echo "  what: Miri reported $(echo "$rep" | jq -r '.repo | keys[0]') (vcheck $ID $*)"
    record miri "$name" "violated (Miri report in akd)" "$extra"; rc=1; return
  fi
  if [ $r -eq 124 ]; then note "$name: Miri timed out (inconclusive sub-run)"; record miri "$name" "inconclusive (timeout)" "$extra"; return; fi
  if [ "$n_any" -gt 0 ] || [ $r -ne 0 ] || [ -z "$line" ]; then note "$name: Miri sub-run exit $r, $n_any report(s) outside akd (inconclusive sub-run): $(grep -m1 '^error' "$out" | cut -c1-160)"; record miri "$name" "inconclusive (exit $r)" "$extra"; return; fi
  note "$name: held under Miri (${wall}s) — $line"
  record miri "$name" "held" "$extra"
}

miri_ok() {
  [ -n "${MIRI_OK:-}" ] && return $MIRI_OK
  if (cd harness && timeout 900 cargo +nightly miri --version) >/dev/null 2>&1; then MIRI_OK=0; else MIRI_OK=1; note "miri unavailable"; record miri "-" "unavailable"; fi
  return $MIRI_OK
}

case "$ID" in
  C01) prepare dev && subrun dev "${BIN[dev]}" dev-quick --tier quick ;;
  C03) prepare dev && subrun dev "${BIN[dev]}" dev-markers --tier thorough --mode markers ;;
  C08) prepare dev && subrun dev "${BIN[dev]}" dev-quick --tier quick ;;
  C10) prepare tsan && subrun tsan "${BIN[tsan]}" tsan-quick --tier quick ;;
  C12) prepare tsan && subrun tsan "${BIN[tsan]}" tsan-stress --tier thorough --mode stress ;;
  C13) prepare tsan && subrun tsan "${BIN[tsan]}" tsan-stress --tier thorough --mode stress ;;
  C14) prepare tsan && subrun tsan "${BIN[tsan]}" tsan-quick --tier quick ;;
  C15) prepare dev && subrun dev "${BIN[dev]}" dev-quick --tier quick
       prepare asan && subrun asan "${BIN[asan]}" asan-quick --tier quick
       miri_ok && miri_run miri-mini --tier quick --mode miri ;;
  C16) prepare tsan && subrun tsan "${BIN[tsan]}" tsan-stress --tier thorough --mode stress
       prepare tsan && subrun tsan "${BIN[tsan]}" tsan-mt --tier thorough --mode miri-mt
       prepare asan && subrun asan "${BIN[asan]}" asan-seq --tier quick --mode seq
       miri_ok && miri_run miri-mini --tier quick --mode miri
       miri_ok && MIRI_EXTRA="-Zmiri-many-seeds=0..4" miri_run miri-mt --tier quick --mode miri-mt ;;
  C17) prepare dev && subrun dev "${BIN[dev]}" dev-quick --tier quick
       miri_ok && miri_run miri-mini --tier quick --mode miri ;;
  C19) prepare dev && subrun dev "${BIN[dev]}" dev-small --tier quick --mode small
       prepare asan && subrun asan "${BIN[asan]}" asan-quick --tier quick
       prepare memcheck && subrun memcheck "${BIN[memcheck]}" memcheck-small --tier quick --mode small ;;
  *) note "no sanitizer sub-runs defined for $ID" ;;
esac

# merge what the sub-runs observed into the main evidence file
EV="$ROOT/evidence/$ID.json"
if [ -s "$SUMMARY" ] && [ -f "$EV" ]; then
  jq -s '.' "$SUMMARY" > "$SUMMARY.arr"
  jq --slurpfile s "$SUMMARY.arr" '.coverage.observed.sanitizers = $s[0] | .sanitizer_subruns = ($s[0] | map(.tool + ":" + .subrun + "=" + .status))' "$EV" > "$EV.tmp" && mv "$EV.tmp" "$EV"
  if [ $rc -ne 0 ]; then jq '.verdict = "violated" | .violations = ((.violations // 0) + 1)' "$EV" > "$EV.tmp" && mv "$EV.tmp" "$EV"; fi
  rm -f "$SUMMARY.arr"
fi
exit $rc
