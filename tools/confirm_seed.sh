#!/bin/bash
# tools/confirm_seed.sh <ID> [--suite]
# Confirms a seeded change delivered in /tmp/seeded-out/<ID>/ inside its scratch worktree /tmp/wt-<ID>:
#   1. demo passes WITHOUT the patch, 2. demo fails WITH the patch, 3. (--suite) the existing suite
#   still passes with the patch (stable tests of /root/.vp/BASELINE.json).
# Prints CONFIRM lines; exit 0 iff all requested steps are as required.
set -u
ID="$1"; SUITE="${2:-}"
WT=/tmp/wt-$ID; OUT=/tmp/seeded-out/$ID
[ -f "$OUT/patch.diff" ] && [ -f "$OUT/demo.rs" ] || { echo "CONFIRM $ID missing deliverables"; exit 2; }
cd "$WT" || exit 2
git checkout -q -- . ; rm -f akd/tests/demo.rs akd_core/tests/demo.rs
LOC=$(jq -r '.demo_location // "akd/tests/demo.rs"' "$OUT/meta.json" 2>/dev/null)
case "$LOC" in akd_core/*) PKG=akd_core; LOC=akd_core/tests/demo.rs ;; *) PKG=akd; LOC=akd/tests/demo.rs ;; esac
mkdir -p "$(dirname "$LOC")"; cp "$OUT/demo.rs" "$LOC"
FEAT=""
[ "$PKG" = akd_core ] && FEAT="--features public_tests,whatsapp_v1,experimental"
ok=0
if cargo test --offline -p $PKG --test demo $FEAT >/tmp/confirm-$ID-clean.log 2>&1; then echo "CONFIRM $ID demo-without-patch=PASS"; else echo "CONFIRM $ID demo-without-patch=FAIL (unexpected)"; ok=1; fi
if ! git apply "$OUT/patch.diff"; then echo "CONFIRM $ID patch does not apply"; exit 2; fi
if cargo test --offline -p $PKG --test demo $FEAT >/tmp/confirm-$ID-patched.log 2>&1; then echo "CONFIRM $ID demo-with-patch=PASS (unexpected)"; ok=1; else
  if grep -q "error\[E\|could not compile" /tmp/confirm-$ID-patched.log; then echo "CONFIRM $ID demo-with-patch=COMPILE-ERROR (unexpected)"; ok=1; else echo "CONFIRM $ID demo-with-patch=FAIL (as required)"; fi
fi
if [ "$SUITE" = "--suite" ]; then
  rm -f "$LOC"
  cargo nextest run --workspace --no-fail-fast --tool-config-file pb:/w/lib/nextest.toml --profile pb --test-threads 8 --offline >/tmp/confirm-$ID-suite.log 2>&1
  failed=$(grep -E "^\s+(FAIL|TIMEOUT|SIGABRT|SIGSEGV)" /tmp/confirm-$ID-suite.log | grep -v test_output_vectors | awk '{print $NF}' | sort -u)
  # wall-clock tests can fail spuriously on a loaded machine: re-run failures alone
  still=""
  for t in $failed; do
    if ! cargo nextest run --workspace --offline --no-fail-fast -E "test(=$t)" >/dev/null 2>&1; then still="$still $t"; fi
  done
  npass=$(grep -E "Summary" /tmp/confirm-$ID-suite.log | sed 's/.*tests run: //' | head -1)
  if [ -z "$still" ]; then echo "CONFIRM $ID suite-with-patch=PASS ($npass passed; retried alone: ${failed:-none})"; else echo "CONFIRM $ID suite-with-patch=FAIL:$still"; ok=1; fi
fi
git checkout -q -- . ; rm -f akd/tests/demo.rs akd_core/tests/demo.rs
exit $ok
