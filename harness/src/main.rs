#![allow(dead_code, unused_imports)]
//! vcheck — one sub-command per property.  Usage:
//!   vcheck <ID> [--tier quick|thorough] [--seed N] [--root /verif] [--replay <file>] [--mode <m>]

mod checks;
mod common;
mod gen;
mod model;
mod dishonest;
mod prover;
mod mon;
mod refhash;
mod rng;
mod sched;
mod transcript;
mod world;
mod xdb;

use mon::{Ctx, Tier};
use std::path::PathBuf;

fn main() {
    let args: Vec<String> = std::env::args().collect();
    if args.len() < 2 {
        eprintln!("usage: vcheck <ID> [--tier quick|thorough] [--seed N] [--root DIR] [--replay FILE] [--mode M]");
        std::process::exit(2);
    }
    let prop = args[1].to_uppercase();
    let mut tier = match std::env::var("VERIF_TIER").ok().as_deref() {
        Some("thorough") => Tier::Thorough,
        _ => Tier::Quick,
    };
    let mut seed: u64 = std::env::var("VERIF_SEED").ok().and_then(|s| s.parse().ok()).unwrap_or(1);
    let mut root = PathBuf::from(std::env::var("VERIF_ROOT").unwrap_or_else(|_| ".".into()));
    let mut replay: Option<PathBuf> = None;
    let mut mode: Option<String> = None;
    let mut case_arg: Option<String> = None;
    let mut workers: usize = std::env::var("VERIF_WORKERS").ok().and_then(|s| s.parse().ok()).unwrap_or(16);
    let mut i = 2;
    while i < args.len() {
        match args[i].as_str() {
            "--tier" => {
                i += 1;
                tier = if args[i] == "thorough" { Tier::Thorough } else { Tier::Quick };
            }
            "--seed" => {
                i += 1;
                seed = args[i].parse().expect("seed");
            }
            "--root" => {
                i += 1;
                root = PathBuf::from(&args[i]);
            }
            "--replay" => {
                i += 1;
                replay = Some(PathBuf::from(&args[i]));
            }
            "--case" => {
                i += 1;
                case_arg = Some(args[i].clone());
            }
            "--mode" => {
                i += 1;
                mode = Some(args[i].clone());
            }
            "--workers" => {
                i += 1;
                workers = args[i].parse().expect("workers");
            }
            other => {
                eprintln!("unknown argument {other}");
                std::process::exit(2);
            }
        }
        i += 1;
    }
    let mut replay_case = None;
    if let Some(p) = &replay {
        let p = if p.is_absolute() { p.clone() } else { root.join(p) };
        let txt = std::fs::read_to_string(&p).unwrap_or_else(|e| {
            eprintln!("cannot read replay file {}: {e}", p.display());
            std::process::exit(2);
        });
        let v: serde_json::Value = serde_json::from_str(&txt).expect("replay json");
        seed = v["seed"].as_u64().unwrap_or(seed);
        tier = if v["tier"].as_str() == Some("thorough") { Tier::Thorough } else { Tier::Quick };
        replay_case = v["case_id"].as_str().map(|s| s.to_string());
        if mode.is_none() {
            mode = v["mode"].as_str().map(|s| s.to_string());
        }
    }
    if prop == "CANARY" {
        // Deliberate defects that prove a sanitizer build is really instrumented (run by sanitize.sh
        // before every sanitizer sub-run; a silent canary makes that sub-run "unavailable").
        canary(mode.as_deref().unwrap_or(""));
        return;
    }
    if replay_case.is_none() {
        replay_case = case_arg;
    }
    mon::install_panic_hook();
    sched::install_pause_hook();
    let known = std::sync::Arc::new(mon::KnownSet::load(&root, &prop));
    let ctx = Ctx {
        known,
        prop: prop.clone(),
        tier,
        seed,
        root,
        workers,
        replay_case,
        mode,
    };
    let code = match prop.as_str() {
        "C01" => checks::c01::run(&ctx),
        "C02" => checks::c02::run(&ctx),
        "C03" => checks::c03::run(&ctx),
        "C04" => checks::c04::run(&ctx),
        "C05" => checks::c05::run(&ctx),
        "C06" => checks::c06::run(&ctx),
        "C07" => checks::c07::run(&ctx),
        "C08" => checks::c08::run(&ctx),
        "C09" => checks::c09::run(&ctx),
        "C10" => checks::c10::run(&ctx),
        "C11" => checks::c11::run(&ctx),
        "C12" => checks::c12::run(&ctx),
        "C13" => checks::c13::run(&ctx),
        "C14" => checks::c14::run(&ctx),
        "C15" => checks::c15::run(&ctx),
        "C16" => checks::c16::run(&ctx),
        "C17" => checks::c17::run(&ctx),
        "C18" => checks::c18::run(&ctx),
        "C19" => checks::c19::run(&ctx),
        "C20" => checks::c20::run(&ctx),
        _ => {
            eprintln!("unknown property {prop}");
            2
        }
    };
    std::process::exit(code);
}

static mut CANARY_CELL: u64 = 0;

#[inline(never)]
fn canary(kind: &str) {
    match kind {
        // unsynchronised writes from two threads -> ThreadSanitizer / Miri data race
        "race" => {
            let t = std::thread::spawn(|| unsafe {
                for i in 0..1000u64 {
                    let p = std::ptr::addr_of_mut!(CANARY_CELL);
                    p.write_volatile(p.read_volatile() + i);
                }
            });
            unsafe {
                for i in 0..1000u64 {
                    let p = std::ptr::addr_of_mut!(CANARY_CELL);
                    p.write_volatile(p.read_volatile() + i);
                }
            }
            t.join().unwrap();
            println!("canary race done {}", unsafe { std::ptr::addr_of!(CANARY_CELL).read_volatile() });
        }
        // heap use after free -> AddressSanitizer / memcheck / Miri
        "heap" => {
            let b = Box::new([7u8; 64]);
            let p = Box::into_raw(b);
            let v = unsafe {
                drop(Box::from_raw(p));
                std::ptr::read_volatile(p as *const u8)
            };
            println!("canary heap done {v}");
        }
        // arithmetic overflow -> panics only when overflow checks are compiled in (dev profile)
        "overflow" => {
            let a: u64 = std::hint::black_box(u64::MAX);
            let b: u64 = std::hint::black_box(1);
            println!("canary overflow done {}", a + b);
        }
        _ => {
            eprintln!("canary kinds: race | heap | overflow");
            std::process::exit(2);
        }
    }
}
