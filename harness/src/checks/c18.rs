//! C18 — a node label is bound to the (key, label, freshness, version) it was derived from.

use crate::common::*;
use crate::mon::*;
use crate::rng::Rng;
use crate::with_cfg;
use crate::world::*;
use akd::ecvrf::{Proof, VRFPublicKey};
use serde_json::json;
use std::convert::TryFrom;

pub fn run(ctx: &Ctx) -> i32 {
    let mon = Mon::new();
    let n_keys = ctx.tier.pick(33, 400);
    par_cases(ctx, &mon, "key", n_keys, |cc, rng, l| {
        let key = if cc.idx == 0 { hex::decode(HARD_CODED_KEY_HEX).unwrap() } else { rng.bytes(32) };
        let other_key = rng.bytes(32);
        for cfg in [Cfg::Wa, Cfg::Exp] {
            with_cfg!(cfg, TC, { block_on(key_case::<TC>(ctx, cc, rng, l, &key, &other_key)) });
        }
    });
    // proof-byte alterations: every single-bit flip of the 80 bytes
    let n_flip = ctx.tier.pick(96, 2400);
    par_cases(ctx, &mon, "bitflips", n_flip, |cc, rng, l| {
        let cfg = if cc.idx % 2 == 0 { Cfg::Wa } else { Cfg::Exp };
        with_cfg!(cfg, TC, { block_on(flip_case::<TC>(cc, rng, l)) });
    });
    // end to end: the real verify_label inside lookup_verify / key_history_verify
    let n_e2e = ctx.tier.pick(64, 400);
    par_cases(ctx, &mon, "e2e", n_e2e, |cc, rng, l| {
        let cfg = if cc.idx % 2 == 0 { Cfg::Wa } else { Cfg::Exp };
        with_cfg!(cfg, TC, { block_on(e2e_case::<TC>(cc, rng, l)) });
    });
    // the tree is made CONSISTENT with an altered claimed node label, so only the VRF binding can reject
    let n_claim = ctx.tier.pick(960, 20000);
    par_cases(ctx, &mon, "claim", n_claim, |cc, rng, l| {
        let cfg = if cc.idx % 2 == 0 { Cfg::Wa } else { Cfg::Exp };
        with_cfg!(cfg, TC, { block_on(claim_case::<TC>(cc, rng, l)) });
    });
    // small-order "public keys": anybody can forge proofs under them, and all forgeries give ONE node label
    par_cases(ctx, &mon, "smallorder", 16, |cc, rng, l| {
        let cfg = if cc.idx % 2 == 0 { Cfg::Wa } else { Cfg::Exp };
        with_cfg!(cfg, TC, { small_order_case::<TC>(cc, rng, l) });
    });
    finish(
        ctx,
        &mon,
        Spec::new(
            "exploration",
            "keys: the hard-coded key + random keys; labels: empty, 1 byte, 32 bytes, 4 KiB, prefix-related pairs, pairs differing in the last bit; versions {1,2,255,256,2^32-1,2^32,2^63,u64::MAX,random}; both freshness values; both configurations. Self-consistency of get_node_label / get_node_labels / get_node_label_from_vrf_proof(get_label_proof) and determinism; verification (public key bytes -> VRFPublicKey::try_from -> verify -> node label from proof) succeeds for the honest tuple and fails after altering key, label, freshness, version or the claimed node label; every single-bit flip of the 80 proof bytes, non-canonical scalars, random strings and wrong lengths either fail or yield the SAME node label; different secret keys give different node labels and commitments; end to end through lookup_verify/key_history_verify with right and wrong public keys; small-order keys: each of the 8 torsion points of edwards25519 as the verification key, with proofs forged WITHOUT a secret key (Gamma = identity, s = k, challenge guessed mod 8; ECVRF helpers re-implemented from RFC 9381 and cross-checked against an honest proof) - verification must fail for every input; claim-consistent trees: a dishonest server places the leaf of (label, version 1) at an ALTERED node label (single bit flipped at position 0/255/random, bit length 255/200/random with the VRF bytes kept or canonically truncated) with the matching commitment, and presents lookup and history proofs whose tree part is genuine for that altered label - only the comparison of the VRF output with the claimed node label (all 256 bits and the length) can reject; the unaltered control must be accepted. distinct = (alteration class, field, cfg); non-trivial = negative case",
        )
        .need("honest_tuples_verified", ctx.tier.pick(2_000, 20_000))
        .need("altered_inputs_rejected", ctx.tier.pick(10_000, 100_000))
        .need("proof_bit_flips", ctx.tier.pick(30_000, 250_000))
        .need("e2e_wrong_key_rejected", ctx.tier.pick(20, 150))
        .need("small_order_keys_tried", 16)
        .need("claim_consistent_tree_controls_accepted", ctx.tier.pick(8, 80))
        .need("claim_consistent_tree_alterations_rejected", ctx.tier.pick(100, 1000)),
    )
}

fn labels(rng: &mut Rng) -> Vec<Vec<u8>> {
    let mut v: Vec<Vec<u8>> = vec![vec![], vec![0], vec![1], b"a".to_vec(), b"ab".to_vec(), b"abc".to_vec(), vec![0u8; 32], rng.bytes(32), vec![b'x'; 4096]];
    let mut last = vec![0u8; 32];
    last[31] = 1;
    v.push(last);
    let n_l = rng.range(1, 80) as usize;
    v.push(rng.bytes(n_l));
    v
}

fn versions(rng: &mut Rng) -> Vec<u64> {
    vec![1, 2, 255, 256, (1 << 32) - 1, 1 << 32, 1 << 63, u64::MAX, rng.next_u64(), rng.below(1000) + 1]
}

fn fr(f: bool) -> VersionFreshness {
    if f {
        VersionFreshness::Fresh
    } else {
        VersionFreshness::Stale
    }
}

/// the verification path `verify_label` uses, step by step, from public pieces
async fn verifies<TC: Configuration>(vrf: &KeyVrf, pk_bytes: &[u8], label: &[u8], fresh: bool, version: u64, proof_bytes: &[u8], claimed: &NodeLabel) -> Result<bool, String> {
    let pk = VRFPublicKey::try_from(pk_bytes).map_err(|e| format!("{e}"))?;
    let alpha = TC::get_hash_from_label_input(&AkdLabel(label.to_vec()), fr(fresh), version);
    let proof = Proof::try_from(proof_bytes).map_err(|e| format!("{e}"))?;
    pk.verify(&proof, &alpha).map_err(|e| format!("{e}"))?;
    let out = vrf.get_node_label_from_vrf_proof(proof).await;
    Ok(out == *claimed)
}

async fn key_case<TC: Configuration>(ctx: &Ctx, cc: &CaseCtx, rng: &mut Rng, l: &mut Local, key: &[u8], other_key: &[u8]) {
    let cfg = cfg_of::<TC>();
    let vrf = KeyVrf::from_bytes(key);
    let other = KeyVrf::from_bytes(other_key);
    let (Ok(pk), Ok(opk)) = (vrf.get_vrf_public_key().await, other.get_vrf_public_key().await) else {
        l.inconclusive("could not derive a public key");
        return;
    };
    let (pk, opk) = (pk.as_bytes().to_vec(), opk.as_bytes().to_vec());
    let ls = labels(rng);
    let vs = versions(rng);
    let detail = |label: &[u8], fresh: bool, version: u64| json!({"cfg": cfg.name(), "key": hex::encode(key), "label": hx(label), "fresh": fresh, "version": version});
    let mut budget = ctx.tier.pick(60, 220);
    for label in &ls {
        for &version in &vs {
            for fresh in [true, false] {
                if budget == 0 {
                    break;
                }
                if rng.chance(1, 2) {
                    continue;
                }
                budget -= 1;
                l.eval(1);
                let al = AkdLabel(label.clone());
                // ---- server side: three derivations agree, deterministically
                let l1 = vrf.get_node_label::<TC>(&al, fr(fresh), version).await.unwrap();
                let l1b = vrf.get_node_label::<TC>(&al, fr(fresh), version).await.unwrap();
                let l2 = vrf.get_node_labels::<TC>(&[(al.clone(), fr(fresh), version, AkdValue(b"v".to_vec()))]).await.unwrap()[0].1;
                let proof = vrf.get_label_proof::<TC>(&al, fr(fresh), version).await.unwrap();
                let proof_b = vrf.get_label_proof::<TC>(&al, fr(fresh), version).await.unwrap();
                let l3 = vrf.get_node_label_from_vrf_proof(proof).await;
                if l1 != l1b || l1 != l2 || l1 != l3 || proof.to_bytes() != proof_b.to_bytes() || l1.label_len != 256 {
                    l.violation("C18:server-derivations-disagree", "get_node_label / get_node_labels / label from proof disagree or are not deterministic", detail(label, fresh, version));
                    return;
                }
                let pb = proof.to_bytes().to_vec();
                // ---- honest tuple verifies
                match verifies::<TC>(&vrf, &pk, label, fresh, version, &pb, &l1).await {
                    Ok(true) => l.count("honest_tuples_verified", 1),
                    other => {
                        l.violation("C18:honest-tuple-rejected", format!("honest VRF proof does not verify / yields another label: {other:?}"), detail(label, fresh, version));
                        return;
                    }
                }
                // ---- single-field alterations must fail
                let mut alts: Vec<(&str, Result<bool, String>)> = vec![];
                alts.push(("key", verifies::<TC>(&vrf, &opk, label, fresh, version, &pb, &l1).await));
                let mut lab2 = label.clone();
                lab2.push(0);
                alts.push(("label-extended", verifies::<TC>(&vrf, &pk, &lab2, fresh, version, &pb, &l1).await));
                if !label.is_empty() {
                    let mut lab3 = label.clone();
                    let n = lab3.len();
                    lab3[n - 1] ^= 1;
                    alts.push(("label-last-bit", verifies::<TC>(&vrf, &pk, &lab3, fresh, version, &pb, &l1).await));
                    alts.push(("label-truncated", verifies::<TC>(&vrf, &pk, &label[..n - 1], fresh, version, &pb, &l1).await));
                }
                alts.push(("freshness", verifies::<TC>(&vrf, &pk, label, !fresh, version, &pb, &l1).await));
                alts.push(("version+1", verifies::<TC>(&vrf, &pk, label, fresh, version.wrapping_add(1), &pb, &l1).await));
                alts.push(("version-1", verifies::<TC>(&vrf, &pk, label, fresh, version.wrapping_sub(1), &pb, &l1).await));
                alts.push(("version-low-32-bits", verifies::<TC>(&vrf, &pk, label, fresh, version & 0xffff_ffff, &pb, &l1).await));
                alts.push(("version-byte-swapped", verifies::<TC>(&vrf, &pk, label, fresh, version.swap_bytes(), &pb, &l1).await));
                let mut claimed = l1;
                claimed.label_val[rng.usize_below(32)] ^= 1 << rng.below(8);
                alts.push(("claimed-node-label", verifies::<TC>(&vrf, &pk, label, fresh, version, &pb, &claimed).await));
                let mut claimed2 = l1;
                claimed2.label_val[31] ^= 1;
                alts.push(("claimed-node-label-last-byte", verifies::<TC>(&vrf, &pk, label, fresh, version, &pb, &claimed2).await));
                for (field, r) in alts {
                    // alterations that happen to be no-ops (e.g. version & mask == version) are skipped
                    let noop = (field == "version-low-32-bits" && version & 0xffff_ffff == version) || (field == "version-byte-swapped" && version.swap_bytes() == version);
                    if noop {
                        continue;
                    }
                    l.case(format!("{field}/{}", cfg.name()).as_bytes(), true);
                    if let Ok(true) = r {
                        let mut d = detail(label, fresh, version);
                        d["altered_field"] = json!(field);
                        l.violation(format!("C18:altered-{field}-accepted"), format!("verification still succeeds after altering {field}"), d);
                        return;
                    }
                    l.count("altered_inputs_rejected", 1);
                }
                // ---- key dependence of node label and commitment
                let ol = other.get_node_label::<TC>(&al, fr(fresh), version).await.unwrap();
                let c1 = TC::compute_fresh_azks_value(&TC::hash(key), &l1, version, &AkdValue(b"value".to_vec()));
                let c2 = TC::compute_fresh_azks_value(&TC::hash(other_key), &l1, version, &AkdValue(b"value".to_vec()));
                if ol == l1 || c1 == c2 {
                    l.violation("C18:key-independent", "two different secret keys give the same node label or commitment", detail(label, fresh, version));
                    return;
                }
                l.count("key_dependence_checked", 1);
            }
        }
    }
    // parallel vs sequential derivation on a batch (order of results may differ)
    let batch: Vec<(AkdLabel, VersionFreshness, u64, AkdValue)> = ls.iter().take(8).enumerate().map(|(i, x)| (AkdLabel(x.clone()), fr(i % 2 == 0), vs[i % vs.len()], AkdValue(vec![i as u8]))).collect();
    let res = vrf.get_node_labels::<TC>(&batch).await.unwrap();
    if res.len() != batch.len() {
        l.violation("C18:get-node-labels-count", "get_node_labels returned a different number of results", json!({"cfg": cfg.name()}));
        return;
    }
    for ((al, f, v, _), nl) in res {
        if vrf.get_node_label::<TC>(&al, f, v).await.unwrap() != nl {
            l.violation("C18:get-node-labels-differs", "get_node_labels disagrees with get_node_label", json!({"cfg": cfg.name(), "label": hx(&al.0), "version": v}));
            return;
        }
    }
    if cc.idx < 2 {
        l.sample(json!({"case": cc.id, "cfg": cfg.name(), "key": hex::encode(key), "labels": ls.len(), "versions": vs}));
    }
}

async fn flip_case<TC: Configuration>(cc: &CaseCtx, rng: &mut Rng, l: &mut Local) {
    let key = rng.bytes(32);
    let vrf = KeyVrf::from_bytes(&key);
    let pk = vrf.get_vrf_public_key().await.unwrap().as_bytes().to_vec();
    let n_l = rng.range(0, 40) as usize;
    let label = rng.bytes(n_l);
    let version = rng.below(1 << 20) + 1;
    let fresh = rng.chance(1, 2);
    let al = AkdLabel(label.clone());
    let honest = vrf.get_node_label::<TC>(&al, fr(fresh), version).await.unwrap();
    let pb = vrf.get_label_proof::<TC>(&al, fr(fresh), version).await.unwrap().to_bytes().to_vec();
    let alpha = TC::get_hash_from_label_input(&al, fr(fresh), version);
    let vpk = VRFPublicKey::try_from(&pk[..]).unwrap();
    let mut judge = |l: &mut Local, class: &str, bytes: &[u8]| -> bool {
        l.eval(1);
        l.case(format!("{class}/{}", cfg_of::<TC>().name()).as_bytes(), true);
        let r = guarded(l, "C18:", "proof decoding/verification", |_| match Proof::try_from(bytes) {
            Err(_) => None,
            Ok(p) => match vpk.verify(&p, &alpha) {
                Ok(()) => Some(p),
                Err(_) => None,
            },
        });
        match r {
            None => false,
            Some(None) => true,
            Some(Some(p)) => {
                let out = block_in(vrf.get_node_label_from_vrf_proof(p));
                if out != honest {
                    l.violation(
                        format!("C18:altered-proof-verifies-to-another-label/{class}"),
                        "an altered proof verifies and yields a different node label",
                        json!({"class": class, "proof": hex::encode(bytes), "key": hex::encode(&key), "label": hx(&label), "version": version}),
                    );
                    return false;
                }
                l.count("altered_proofs_verifying_to_same_label", 1);
                true
            }
        }
    };
    for byte in 0..80 {
        for bit in 0..8 {
            let mut b = pb.clone();
            b[byte] ^= 1 << bit;
            let class = if byte < 32 { "bitflip-gamma" } else if byte < 48 { "bitflip-c" } else { "bitflip-s" };
            l.count("proof_bit_flips", 1);
            if !judge(l, class, &b) {
                return;
            }
        }
    }
    // non-canonical scalar s + order (little endian addition)
    {
        const ORDER: [u8; 32] = [0xed, 0xd3, 0xf5, 0x5c, 0x1a, 0x63, 0x12, 0x58, 0xd6, 0x9c, 0xf7, 0xa2, 0xde, 0xf9, 0xde, 0x14, 0, 0, 0, 0, 0, 0, 0, 0, 0, 0, 0, 0, 0, 0, 0, 0x10];
        let mut b = pb.clone();
        let mut carry = 0u16;
        for i in 0..32 {
            let s = b[48 + i] as u16 + ORDER[i] as u16 + carry;
            b[48 + i] = s as u8;
            carry = s >> 8;
        }
        if carry == 0 {
            judge(l, "non-canonical-s", &b);
        }
    }
    for _ in 0..40 {
        let b = rng.bytes(80);
        judge(l, "random-80-bytes", &b);
    }
    for len in [0usize, 1, 32, 79, 81, 160] {
        let b = rng.bytes(len);
        judge(l, "wrong-length", &b);
    }
    // the proof of another tuple for this tuple
    let other = vrf.get_label_proof::<TC>(&al, fr(!fresh), version).await.unwrap().to_bytes().to_vec();
    judge(l, "proof-of-other-freshness", &other);
    let other = vrf.get_label_proof::<TC>(&al, fr(fresh), version + 1).await.unwrap().to_bytes().to_vec();
    judge(l, "proof-of-other-version", &other);
    if cc.idx < 1 {
        l.sample(json!({"case": cc.id, "family": "bitflips", "proof": hex::encode(&pb), "label": hx(&label), "version": version}));
    }
}

/// run a small future to completion from sync code that is already inside block_on (no awaits pending)
fn block_in<F: std::future::Future>(f: F) -> F::Output {
    // the future only wraps synchronous computation (get_node_label_from_vrf_proof), poll it once
    use std::task::{Context, Poll, RawWaker, RawWakerVTable, Waker};
    fn noop(_: *const ()) {}
    fn clone(_: *const ()) -> RawWaker {
        RawWaker::new(std::ptr::null(), &VTABLE)
    }
    static VTABLE: RawWakerVTable = RawWakerVTable::new(clone, noop, noop, noop);
    let waker = unsafe { Waker::from_raw(RawWaker::new(std::ptr::null(), &VTABLE)) };
    let mut cx = Context::from_waker(&waker);
    let mut f = Box::pin(f);
    loop {
        if let Poll::Ready(v) = f.as_mut().poll(&mut cx) {
            return v;
        }
    }
}

async fn e2e_case<TC: Configuration>(cc: &CaseCtx, rng: &mut Rng, l: &mut Local) {
    let key = rng.bytes(32);
    let other_key = rng.bytes(32);
    let Ok(mut w) = World::<TC>::new(CacheOpt::None, AzksParallelismConfig::disabled(), KeyVrf::from_bytes(&key)).await else {
        l.inconclusive("Directory::new failed");
        return;
    };
    let Ok(mut w2) = World::<TC>::new(CacheOpt::None, AzksParallelismConfig::disabled(), KeyVrf::from_bytes(&other_key)).await else {
        return;
    };
    let n_l = rng.range(0, 20) as usize;
    let label = rng.bytes(n_l);
    for i in 0..rng.range(1, 3) {
        let b = vec![(label.clone(), format!("v{i}").into_bytes())];
        w.publish(&b).await;
        w2.publish(&b).await;
    }
    l.eval(1);
    let (p, eh) = w.dir.lookup(AkdLabel(label.clone())).await.unwrap();
    let (p2, eh2) = w2.dir.lookup(AkdLabel(label.clone())).await.unwrap();
    if w.verify_lookup(&eh, &label, p.clone()).is_err() {
        l.violation("C18:e2e-honest-rejected", "lookup under the directory's own key does not verify", json!({"key": hex::encode(&key)}));
        return;
    }
    // same history, other secret key: other node labels, other commitments, other root
    if p.existence_proof.label == p2.existence_proof.label || p.existence_proof.hash_val == p2.existence_proof.hash_val || eh.1 == eh2.1 || p.commitment_nonce == p2.commitment_nonce {
        l.violation("C18:e2e-key-independent", "two directories with different secret keys share node labels / commitments / root", json!({"k1": hex::encode(&key), "k2": hex::encode(&other_key)}));
        return;
    }
    // verification under the wrong public key must fail, for lookup and history
    if akd::client::lookup_verify::<TC>(&w2.pk, eh.1, eh.0, AkdLabel(label.clone()), p.clone()).is_ok() {
        l.violation("C18:e2e-wrong-key-accepted", "lookup proof verifies under another directory's public key", json!({"k1": hex::encode(&key), "k2": hex::encode(&other_key)}));
        return;
    }
    let (hp, heh) = w.dir.key_history(&AkdLabel(label.clone()), HistoryParams::Complete).await.unwrap();
    if akd::client::key_history_verify::<TC>(&w2.pk, heh.1, heh.0, AkdLabel(label.clone()), hp.clone(), HistoryVerificationParams::default()).is_ok() {
        l.violation("C18:e2e-wrong-key-accepted", "history proof verifies under another directory's public key", json!({"k1": hex::encode(&key)}));
        return;
    }
    l.count("e2e_wrong_key_rejected", 2);
    // VRF proofs of the other directory spliced in
    let mut q = p.clone();
    q.existence_vrf_proof = p2.existence_vrf_proof.clone();
    if w.verify_lookup(&eh, &label, q).is_ok() {
        l.violation("C18:e2e-foreign-vrf-proof-accepted", "a VRF proof made with another key is accepted", json!({}));
        return;
    }
    // malformed public keys never panic
    for bad in [vec![], vec![0u8; 31], vec![0u8; 33], rng.bytes(32), vec![0xffu8; 32]] {
        let _ = guarded(l, "C18:", "lookup_verify with a malformed public key", |_| akd::client::lookup_verify::<TC>(&bad, eh.1, eh.0, AkdLabel(label.clone()), p.clone()));
    }
    l.case(format!("e2e/{}", cfg_of::<TC>().name()).as_bytes(), true);
    if cc.idx < 1 {
        l.sample(json!({"case": cc.id, "family": "e2e", "label": hx(&label)}));
    }
}

/// The dishonest server stores the leaf of (victim, fresh, 1) under an altered node label L* (with the
/// commitment computed for L*), so the membership proof of L* is genuine; the lookup / history proof
/// claims L* as the node label of the VRF proof of (victim, fresh, 1).  Must be rejected unless L* is
/// the true label.
async fn claim_case<TC: Configuration>(cc: &CaseCtx, rng: &mut Rng, l: &mut Local) {
    use crate::dishonest::{self, Corruption};
    use crate::prover::{flip_bit, Forge};
    use crate::xdb::XDb;
    let key = rng.bytes(32);
    let vrf = KeyVrf::from_bytes(&key);
    let db = XDb::new();
    let mgr = CacheOpt::None.manager(db.clone());
    let Ok(dir) = Dir::<TC>::new(mgr.clone(), vrf.clone(), AzksParallelismConfig::disabled()).await else {
        l.inconclusive("Directory::new failed");
        return;
    };
    let pk = dir.get_public_key().await.unwrap().as_bytes().to_vec();
    let filler: crate::model::Batch = (0..rng.range(1, 12)).map(|i| (format!("filler-{i}").into_bytes(), b"x".to_vec())).collect();
    if dishonest::publish::<TC, _>(&mgr, &vrf, &filler, &Corruption::default()).await.is_err() {
        l.inconclusive("filler publish failed");
        return;
    }
    let n_l = rng.range(0, 24) as usize;
    let victim = { let mut v = rng.bytes(n_l); v.extend_from_slice(b"-victim"); v };
    let value = b"claimed-value".to_vec();
    let f = vrf.get_node_label::<TC>(&AkdLabel(victim.clone()), VersionFreshness::Fresh, 1).await.unwrap();
    let kind = (cc.idx / 2) % 8;
    let (class, alt): (&str, NodeLabel) = match kind {
        0 => ("control-unaltered", f),
        1 => ("bit-255-flipped", flip_bit(&f, 255)),
        2 => ("bit-0-flipped", flip_bit(&f, 0)),
        3 => ("random-bit-flipped", flip_bit(&f, rng.below(256) as u32)),
        4 => ("length-255-bytes-kept", NodeLabel { label_val: f.label_val, label_len: 255 }),
        5 => ("length-255-canonical", f.get_prefix(255)),
        6 => ("length-200-bytes-kept", NodeLabel { label_val: f.label_val, label_len: 200 }),
        _ => {
            let k = rng.range(40, 254) as u32;
            ("length-random-canonical", f.get_prefix(k))
        }
    };
    let ck = TC::hash(&vrf.0);
    let elem = AzksElement { label: alt, value: TC::compute_fresh_azks_value(&ck, &alt, 1, &AkdValue(value.clone())) };
    let c = Corruption { raw: vec![elem], omit_fresh_for: vec![victim.clone()], ..Default::default() };
    let eh = match dishonest::publish::<TC, _>(&mgr, &vrf, &vec![(victim.clone(), value.clone())], &c).await {
        Ok(e) => e,
        Err(e) => {
            // the tree refused the altered label (e.g. mixed lengths colliding): nothing to present
            l.count("claim_consistent_tree_insert_refused", 1);
            let _ = e;
            return;
        }
    };
    let forge = Forge::<TC>::new(&db, eh.0, vrf.clone()).await;
    let Some(mem) = forge.view.membership(&alt) else {
        l.count("claim_consistent_tree_no_membership", 1);
        return;
    };
    l.eval(1);
    let detail = json!({"cfg": cfg_of::<TC>().name(), "key": hex::encode(&key), "label": hx(&victim), "class": class,
        "true_node_label": {"val": hex::encode(f.label_val), "len": f.label_len}, "claimed_node_label": {"val": hex::encode(alt.label_val), "len": alt.label_len}, "epoch": eh.0});
    // ---- lookup
    let Some(mut p) = forge.lookup_proof(&victim, 1, &value, eh.0, None).await else { return };
    p.existence_proof = mem.clone();
    p.marker_proof = mem.clone();
    p.commitment_nonce = forge.nonce(&alt, 1, &value);
    let r = guarded(l, "C18:", "lookup_verify (claim-consistent tree)", |_| akd::client::lookup_verify::<TC>(&pk, eh.1, eh.0, AkdLabel(victim.clone()), p));
    // ---- history (one version)
    let hp = forge.history_proof(&victim, &[(1, value.clone(), eh.0)], eh.0, None).await;
    let rh = match hp {
        Some(mut h) => {
            h.update_proofs[0].existence_proof = mem.clone();
            h.update_proofs[0].commitment_nonce = forge.nonce(&alt, 1, &value);
            // version 1 is its own past marker
            for m in h.existence_of_past_marker_proofs.iter_mut() {
                *m = mem.clone();
            }
            guarded(l, "C18:", "key_history_verify (claim-consistent tree)", |_| {
                akd::client::key_history_verify::<TC>(&pk, eh.1, eh.0, AkdLabel(victim.clone()), h, HistoryVerificationParams::default())
            })
        }
        None => None,
    };
    if kind == 0 {
        match (&r, &rh) {
            (Some(Ok(vr)), Some(Ok(hs))) if vr.version == 1 && vr.value.0 == value && hs.len() == 1 => l.count("claim_consistent_tree_controls_accepted", 1),
            _ => l.violation("C18:claim-control-rejected", format!("the unaltered control of the claim-consistent-tree family is not accepted: lookup {:?}, history {:?}", r.as_ref().map(|x| x.is_ok()), rh.as_ref().map(|x| x.is_ok())), detail),
        }
    } else {
        let mut bad = vec![];
        if let Some(Ok(_)) = r {
            bad.push("lookup_verify");
        }
        if let Some(Ok(_)) = rh {
            bad.push("key_history_verify");
        }
        if bad.is_empty() {
            l.count("claim_consistent_tree_alterations_rejected", 1);
        } else {
            l.violation(
                format!("C18:claimed-node-label-altered-accepted/{class}"),
                format!("{} accepted a proof whose claimed node label ({class}) is not the VRF output of (label, fresh, 1): the tree contains the altered label, only the VRF binding could have rejected it", bad.join(" and ")),
                detail,
            );
        }
    }
    l.case(format!("claim/{class}/{}", cfg_of::<TC>().name()).as_bytes(), kind != 0);
    if cc.idx < 2 {
        l.sample(json!({"case": cc.id, "family": "claim-consistent tree", "class": class, "label": hx(&victim)}));
    }
}

// ---------------------------------------------------------------------------------------------
// Small-order public keys.  Public parts of ECVRF-EDWARDS25519-SHA512-TAI (RFC 9381) re-implemented
// here (the library keeps them private); nothing below needs a secret key.

mod rfc9381 {
    use curve25519_dalek::edwards::{CompressedEdwardsY, EdwardsPoint};
    use curve25519_dalek::scalar::Scalar;
    use curve25519_dalek::traits::IsIdentity;
    use sha2::{Digest, Sha512};
    const SUITE: u8 = 0x03;

    pub fn encode_to_curve(pk_bytes: &[u8; 32], alpha: &[u8]) -> EdwardsPoint {
        let mut counter = 0u8;
        loop {
            let hash = Sha512::new().chain_update([SUITE, 0x01]).chain_update(pk_bytes).chain_update(alpha).chain_update([counter, 0x00]).finalize();
            counter = counter.wrapping_add(1);
            let mut candidate = [0u8; 32];
            candidate.copy_from_slice(&hash[..32]);
            if let Some(point) = CompressedEdwardsY(candidate).decompress() {
                let point = point.mul_by_cofactor();
                if !point.is_identity() {
                    return point;
                }
            }
        }
    }

    pub fn challenge(pk_bytes: &[u8; 32], h_point: &EdwardsPoint, points: &[EdwardsPoint]) -> Scalar {
        let mut hash = Sha512::new().chain_update([SUITE, 0x02]).chain_update(pk_bytes).chain_update(h_point.compress().to_bytes());
        for point in points {
            hash = hash.chain_update(point.compress().to_bytes());
        }
        let digest = hash.chain_update([0x00]).finalize();
        let mut c = [0u8; 32];
        c[..16].copy_from_slice(&digest[..16]);
        Scalar::from_bytes_mod_order(c)
    }
}

/// With Gamma = identity the verifier recomputes U = s*B - c*PK and V = s*H; c*PK depends on c mod 8
/// only when PK has small order.  Pick k, guess j = c mod 8, set U = k*B - j*PK, V = k*H, compute c and
/// keep (Gamma, c, s = k) when the guess was right.  Returns the 80 proof bytes.
fn forge_under_small_order_key(pk_point: &curve25519_dalek::edwards::EdwardsPoint, pk_bytes: &[u8; 32], alpha: &[u8]) -> Option<Vec<u8>> {
    use curve25519_dalek::constants::ED25519_BASEPOINT_POINT;
    use curve25519_dalek::edwards::EdwardsPoint;
    use curve25519_dalek::scalar::Scalar;
    use curve25519_dalek::traits::Identity;
    let h_point = rfc9381::encode_to_curve(pk_bytes, alpha);
    let gamma = EdwardsPoint::identity();
    for k in 1u64..400 {
        let ks = Scalar::from(k);
        let v = h_point * ks;
        for j in 0u8..8 {
            let u = ED25519_BASEPOINT_POINT * ks - pk_point * Scalar::from(j);
            let c = rfc9381::challenge(pk_bytes, &h_point, &[gamma, u, v]);
            if c.to_bytes()[0] & 7 == j {
                let mut out = gamma.compress().to_bytes().to_vec();
                out.extend_from_slice(&c.to_bytes()[..16]);
                out.extend_from_slice(&ks.to_bytes());
                return Some(out);
            }
        }
    }
    None
}

fn small_order_case<TC: Configuration>(cc: &CaseCtx, rng: &mut Rng, l: &mut Local) {
    use curve25519_dalek::constants::{ED25519_BASEPOINT_POINT, EIGHT_TORSION};
    use curve25519_dalek::edwards::CompressedEdwardsY;
    use curve25519_dalek::scalar::Scalar;
    let cfg = cfg_of::<TC>();
    // ---- the re-implemented helpers must agree with the library on an HONEST proof (vacuity guard)
    {
        let vrf = KeyVrf::hard_coded();
        let al = AkdLabel(b"alice".to_vec());
        let alpha = TC::get_hash_from_label_input(&al, VersionFreshness::Fresh, 7);
        let (Ok(pk), Ok(proof)) = (block_on(vrf.get_vrf_public_key()), block_on(vrf.get_label_proof::<TC>(&al, VersionFreshness::Fresh, 7))) else {
            l.inconclusive("could not produce an honest proof");
            return;
        };
        let pb = proof.to_bytes();
        let mut pkb = [0u8; 32];
        pkb.copy_from_slice(pk.as_bytes());
        let ok = (|| {
            let pk_point = CompressedEdwardsY(pkb).decompress()?;
            let gamma = CompressedEdwardsY::from_slice(&pb[..32]).ok()?.decompress()?;
            let mut c = [0u8; 32];
            c[..16].copy_from_slice(&pb[32..48]);
            let c = Scalar::from_bytes_mod_order(c);
            let mut s = [0u8; 32];
            s.copy_from_slice(&pb[48..80]);
            let s = Scalar::from_bytes_mod_order(s);
            let h = rfc9381::encode_to_curve(&pkb, &alpha);
            let u = ED25519_BASEPOINT_POINT * s - pk_point * c;
            let v = h * s - gamma * c;
            Some(c == rfc9381::challenge(&pkb, &h, &[gamma, u, v]))
        })();
        if ok != Some(true) {
            l.inconclusive("the harness's re-implementation of the public ECVRF steps disagrees with the library on an honest proof");
            return;
        }
        l.count("small_order_helper_cross_checked", 1);
    }
    let t = &EIGHT_TORSION[(cc.idx / 2) as usize % 8];
    let pk_bytes = t.compress().to_bytes();
    l.eval(1);
    l.count("small_order_keys_tried", 1);
    l.case(format!("smallorder/{}/{}", hex::encode(&pk_bytes[..4]), cfg.name()).as_bytes(), true);
    let parsed = guarded(l, "C18:", "VRFPublicKey::try_from(small-order point)", |_| VRFPublicKey::try_from(&pk_bytes[..]));
    let Some(parsed) = parsed else { return };
    let Ok(pk) = parsed else {
        l.count("small_order_keys_refused_at_parse", 1);
        return;
    };
    // the key parses: then no forged proof may verify
    let mut verified = 0;
    let mut labels_seen = std::collections::HashSet::new();
    let inputs: Vec<(Vec<u8>, bool, u64)> = vec![(vec![], true, 1), (b"alice".to_vec(), true, 2), (b"alice".to_vec(), false, 2), (rng.bytes(40), true, u64::MAX), (vec![0xab; 3000], false, 1)];
    for (label, fresh, version) in &inputs {
        let alpha = TC::get_hash_from_label_input(&AkdLabel(label.clone()), fr(*fresh), *version);
        let Some(forged) = forge_under_small_order_key(t, &pk_bytes, &alpha) else { continue };
        l.count("small_order_forgeries_built", 1);
        let Ok(proof) = Proof::try_from(&forged[..]) else { continue };
        if pk.verify(&proof, &alpha).is_ok() {
            verified += 1;
            let nl = block_on(KeyVrf::hard_coded().get_node_label_from_vrf_proof(proof));
            labels_seen.insert(nl.label_val);
        }
    }
    if verified > 0 {
        l.violation(
            "C18:small-order-public-key-accepted",
            format!("the small-order point {} is accepted as a VRF public key and {verified} of {} proofs forged WITHOUT any secret key verify under it, yielding {} distinct node label(s) for unrelated (label, freshness, version) inputs", hex::encode(pk_bytes), inputs.len(), labels_seen.len()),
            json!({"cfg": cfg.name(), "public_key": hex::encode(pk_bytes), "verified": verified}),
        );
    } else {
        l.count("small_order_keys_parsed_but_no_forgery_verified", 1);
    }
}
