//! C12 — concurrent publishes take effect one after another.
//! Controlled schedules at storage-operation granularity (exhaustive to a preemption bound, random
//! and PCT beyond) plus multi-thread stress; oracle = sequential specification (model + refhash),
//! the linearisation order being forced by the returned epochs.

use crate::common::*;
use crate::gen::{batch_json, history_json};
use crate::model::{Applied, Batch};
use crate::mon::*;
use crate::rng::Rng;
use crate::sched::*;
use crate::with_cfg;
use crate::world::*;
use crate::xdb::XDb;
use akd::auditor::audit_verify;
use serde_json::{json, Value};
use std::sync::{Arc, Mutex};

#[derive(Clone)]
pub struct Scn {
    pub cfg: Cfg,
    pub cache: CacheOpt,
    pub prefix: Vec<Batch>,
    pub batches: Vec<Batch>,
    pub exit_gates: bool,
}

impl Scn {
    fn random(rng: &mut Rng, n_pub: usize) -> Self {
        let labels: Vec<Vec<u8>> = vec![b"x".to_vec(), b"y".to_vec(), b"z".to_vec()];
        let mut counter = 0;
        let mut mk = |rng: &mut Rng, tag: &str| -> Batch {
            let k = rng.range(1, 3) as usize;
            let mut ls = labels.clone();
            rng.shuffle(&mut ls);
            ls.truncate(k);
            ls.into_iter()
                .map(|l| {
                    counter += 1;
                    (l, format!("{tag}:{counter}").into_bytes())
                })
                .collect()
        };
        let prefix: Vec<Batch> = (0..rng.below(4)).map(|i| mk(rng, &format!("p{i}"))).collect();
        let batches: Vec<Batch> = (0..n_pub).map(|i| mk(rng, &format!("t{}", i + 1))).collect();
        Scn {
            cfg: if rng.chance(1, 2) { Cfg::Wa } else { Cfg::Exp },
            cache: if rng.chance(1, 2) { CacheOpt::None } else { CacheOpt::Default },
            prefix,
            batches,
            exit_gates: rng.chance(1, 4),
        }
    }
    fn json(&self) -> Value {
        json!({"cfg": self.cfg.name(), "cache": self.cache.name(), "exit_gates": self.exit_gates,
               "prefix": history_json(&self.prefix), "concurrent_batches": history_json(&self.batches)})
    }
}

pub fn run(ctx: &Ctx) -> i32 {
    let mon = Mon::new();
    if ctx.mode.as_deref() == Some("stress") {
        // sanitizer sub-run: only the multi-thread part
        par_cases(ctx, &mon, "stress", 6, |cc, rng, l| {
            let cfg = if rng.chance(1, 2) { Cfg::Wa } else { Cfg::Exp };
            with_cfg!(cfg, TC, { stress::<TC>(ctx, cc, rng, l) });
        });
        return finish(ctx, &mon, Spec::new("exploration", "multi-thread stress only (sanitizer sub-run)").need("stress_publishes", 100));
    }
    // ---- exhaustive, bounded preemptions, two publishes
    let n_scn = ctx.tier.pick(16, 128);
    let bound = ctx.tier.pick(1, 2);
    par_cases(ctx, &mon, "dfs2", n_scn, |cc, rng, l| {
        let scn = Scn::random(rng, 2);
        let mut dfs = Dfs::new(bound);
        let cap = ctx.tier.pick(1500, 40000);
        let mut n = 0;
        loop {
            let (out, _) = with_cfg!(scn.cfg, TC, { run_one::<TC>(&scn, &mut dfs, l, "dfs") });
            n += 1;
            l.count("dfs_schedules", 1);
            let _ = out;
            if !dfs.advance() {
                l.count("dfs_scenarios_exhausted", 1);
                break;
            }
            if n >= cap {
                l.count("dfs_scenarios_capped", 1);
                break;
            }
        }
        l.count("dfs_nondeterministic_choice_points", dfs.nondeterminism);
        if cc.idx < 2 {
            l.sample(json!({"case": cc.id, "scenario": scn.json(), "schedules_enumerated": n, "preemption_bound": bound}));
        }
    });
    // ---- random + PCT schedules, two and three publishes
    let n_rand = ctx.tier.pick(160, 4000);
    par_cases(ctx, &mon, "rand", n_rand, |cc, rng, l| {
        let scn = Scn::random(rng, if cc.idx % 3 == 0 { 3 } else { 2 });
        let per = ctx.tier.pick(20, 70);
        for i in 0..per {
            if i % 2 == 0 {
                let mut r2 = Rng::derive(cc.idx, "c12-rand", i);
                let mut st = RandomStrategy(&mut r2);
                with_cfg!(scn.cfg, TC, { run_one::<TC>(&scn, &mut st, l, "random") });
            } else {
                let mut st = PctStrategy::new(rng.next_u64(), 2, 40);
                with_cfg!(scn.cfg, TC, { run_one::<TC>(&scn, &mut st, l, "pct") });
            }
            l.count("random_schedules", 1);
        }
    });
    // ---- replay determinism: re-running a recorded schedule reproduces the same trace
    par_cases(ctx, &mon, "replay", 8, |_cc, rng, l| {
        let scn = Scn::random(rng, 2);
        let mut r2 = Rng::new(rng.next_u64());
        let mut st = RandomStrategy(&mut r2);
        let (o1, _) = with_cfg!(scn.cfg, TC, { run_one::<TC>(&scn, &mut st, l, "random") });
        let mut rp = Replay { schedule: o1.schedule(), mismatches: 0 };
        let (o2, _) = with_cfg!(scn.cfg, TC, { run_one::<TC>(&scn, &mut rp, l, "replay") });
        if o1.shape() == o2.shape() && rp.mismatches == 0 {
            l.count("replays_identical", 1);
        } else {
            l.count("replays_diverged", 1);
            l.inconclusive("replaying a recorded schedule did not reproduce the trace (scheduler is not deterministic)");
        }
    });
    // ---- multi-thread stress
    let n_stress = ctx.tier.pick(3, 20);
    par_cases(ctx, &mon, "stress", n_stress, |cc, rng, l| {
        let cfg = if rng.chance(1, 2) { Cfg::Wa } else { Cfg::Exp };
        with_cfg!(cfg, TC, { stress::<TC>(ctx, cc, rng, l) });
    });
    finish(
        ctx,
        &mon,
        Spec::new(
            "exploration",
            "2-3 publish tasks on clones of one directory over a 0-3 epoch prefix, overlapping labels, unique values; schedules at storage-operation granularity on a current-thread runtime: EXHAUSTIVE for preemption bound 1 (quick) / 2 (thorough) per scenario, plus random and PCT schedules, cached and uncached, with and without exit gates; plus multi-thread stress (4 clones x 25-50 publishes, jitter). Oracle: successful calls have distinct consecutive epochs, each returned (epoch, hash) equals the reference after applying the successful batches in epoch order, final state equals that model, failed calls left nothing, audit(0,final) verifies against the returned hashes. distinct = gate-level interleavings; non-trivial = at least two publishes overlap",
        )
        .assume("storage-operation granularity on one thread; interleavings inside one storage operation only via the multi-thread stress")
        .need("schedules", ctx.tier.pick(2000, 60000))
        .need("schedules_with_overlap", ctx.tier.pick(1000, 30000))
        .need("replays_identical", 6)
        .need("stress_publishes", ctx.tier.pick(200, 2000)),
    )
}

/// the order of start / commit-write / return of each publish, e.g. "1.start<2.start<1.commit<2.commit"
fn pattern(out: &Outcome) -> String {
    let mut ev = vec![];
    for (t, d) in &out.trace {
        if d == "start" {
            ev.push(format!("{t}.start"));
        } else if d.starts_with("batch_set_commit") {
            ev.push(format!("{t}.commit"));
        }
    }
    ev.join("<")
}

fn run_one<TC: Configuration>(scn: &Scn, strategy: &mut dyn Strategy, l: &mut Local, kind: &str) -> (Outcome, bool) {
    let scn = scn.clone();
    let (out, verdict) = in_runtime(async {
        let db = XDb::new();
        let Ok(mut w) = World::<TC>::over(db.clone(), scn.cache, AzksParallelismConfig::disabled(), KeyVrf::hard_coded()).await else {
            return (Outcome::default(), Err(("harness".to_string(), "Directory::new failed".to_string())));
        };
        for b in &scn.prefix {
            let (a, r) = w.publish(b).await;
            if matches!(a, Applied::Epoch(..)) && r.is_err() {
                return (Outcome::default(), Err(("harness".to_string(), "prefix publish failed".to_string())));
            }
        }
        let prefix_epoch = w.model.epoch;
        let results: Arc<Mutex<Vec<Option<Result<EpochHash, String>>>>> = Arc::new(Mutex::new(vec![None; scn.batches.len()]));
        let mut r = Runner::new(scn.exit_gates);
        db.ctl.set_gate(Some(r.gate()));
        for (i, b) in scn.batches.iter().enumerate() {
            let d = w.dir.clone();
            let b = akd_batch(b);
            let res = results.clone();
            r.client(i as u32 + 1, async move {
                let x = d.publish(b).await;
                res.lock().unwrap()[i] = Some(x.map_err(|e| e.to_string()));
            });
        }
        let out = r.drive(strategy).await;
        db.ctl.set_gate(None);
        if out.stuck {
            return (out, Err(("stuck".to_string(), "schedule got stuck: some publish neither finished nor reached a storage operation".to_string())));
        }
        // ---- oracle
        let results = results.lock().unwrap().clone();
        let mut succ: Vec<(usize, EpochHash)> = vec![];
        for (i, r) in results.iter().enumerate() {
            match r {
                Some(Ok(eh)) => succ.push((i, eh.clone())),
                Some(Err(_)) => {}
                None => return (out, Err(("no-result".to_string(), format!("publish task {} has no result", i + 1)))),
            }
        }
        succ.sort_by_key(|s| s.1 .0);
        for (j, (i, eh)) in succ.iter().enumerate() {
            let want_epoch = prefix_epoch + 1 + j as u64;
            if eh.0 != want_epoch {
                let dup = succ.iter().filter(|s| s.1 .0 == eh.0).count() > 1;
                return (
                    out,
                    Err((
                        if dup { "duplicate-epoch".to_string() } else { "non-consecutive-epoch".to_string() },
                        format!(
                            "successful publishes returned epochs {:?} after a prefix of {prefix_epoch} epochs (task {} got {})",
                            succ.iter().map(|s| s.1 .0).collect::<Vec<_>>(),
                            i + 1,
                            eh.0
                        ),
                    )),
                );
            }
            w.model.apply(&scn.batches[*i]);
            let (root, _) = w.ref_root(want_epoch).await;
            if root != eh.1 {
                return (out, Err(("returned-hash-not-sequential".to_string(), format!("task {} returned a root for epoch {} that differs from applying the successful batches in epoch order", i + 1, eh.0))));
            }
            w.published.push(eh.1);
        }
        let final_epoch = prefix_epoch + succ.len() as u64;
        match w.dir.get_epoch_hash().await {
            Ok(eh) if eh.0 == final_epoch && eh.1 == w.published[final_epoch as usize] => {}
            Ok(eh) => {
                return (out, Err(("final-state-diverges".to_string(), format!("final get_epoch_hash = ({}, {}) but the successful calls imply epoch {final_epoch}", eh.0, hx(&eh.1)))));
            }
            Err(e) => return (out, Err(("final-state-unreadable".to_string(), format!("get_epoch_hash failed afterwards: {e}")))),
        }
        if w.mgr.is_transaction_active() {
            return (out, Err(("transaction-left-open".to_string(), "a transaction is still open after all publishes returned".to_string())));
        }
        for label in w.model.labels() {
            let want = w.model.latest(&label, final_epoch).cloned().unwrap();
            match w.dir.lookup(AkdLabel(label.clone())).await {
                Ok((p, eh)) => match w.verify_lookup(&eh, &label, p) {
                    Ok(vr) if ver_matches(&want, &vr) => {}
                    other => {
                        return (out, Err(("final-lookup-diverges".to_string(), format!("lookup of {} afterwards: {:?} vs model {}", hx(&label), other.map(|v| vr_json(&v)), ver_json(&want)))));
                    }
                },
                Err(e) => return (out, Err(("final-lookup-fails".to_string(), format!("lookup of {} fails afterwards: {e}", hx(&label))))),
            }
        }
        if final_epoch >= 1 {
            match w.dir.audit(0, final_epoch).await {
                Ok(p) => {
                    if let Err(e) = audit_verify::<TC>(w.published.clone(), p).await {
                        return (out, Err(("audit-rejects-returned-hashes".to_string(), format!("audit(0,{final_epoch}) does not verify against the returned hashes: {e}"))));
                    }
                }
                Err(e) => return (out, Err(("audit-fails".to_string(), format!("audit fails afterwards: {e}")))),
            }
        }
        let n_failed = results.iter().filter(|r| matches!(r, Some(Err(_)))).count();
        (out, Ok(n_failed))
    });
    l.eval(1);
    l.count("schedules", 1);
    let n_tasks = scn.batches.len() as u32;
    let mut overlap = false;
    for a in 1..=n_tasks {
        for b in (a + 1)..=n_tasks {
            overlap |= out.overlap(a, b);
        }
    }
    if overlap {
        l.count("schedules_with_overlap", 1);
    }
    l.case_h(out.interleaving_hash() ^ crate::rng::fnv(format!("{:?}{:?}", scn.cache, scn.exit_gates).as_bytes()), overlap);
    match verdict {
        Ok(n_failed) => {
            if n_failed > 0 {
                l.count("schedules_with_a_refused_publish", 1);
            }
            (out, true)
        }
        Err((obs, msg)) if obs == "harness" || obs == "stuck" => {
            l.count(&format!("schedules_{obs}"), 1);
            if obs == "stuck" {
                l.violation(format!("C12:stuck/{}", scn.cache.name()), msg, json!({"scenario": scn.json(), "schedule": out.schedule(), "strategy": kind}));
            } else {
                l.inconclusive(msg);
            }
            (out, false)
        }
        Err((obs, msg)) => {
            let pat = pattern(&out);
            l.violation(
                format!("C12:{obs}/{}/{pat}", if scn.cache == CacheOpt::None { "uncached" } else { "cached" }),
                msg,
                json!({"scenario": scn.json(), "strategy": kind, "schedule": out.schedule(), "order_of_starts_and_commits": pat,
                       "trace": out.trace.iter().map(|(t, d)| format!("{t}:{d}")).collect::<Vec<_>>()}),
            );
            (out, false)
        }
    }
}

/// multi-thread stress: 4 clones publish concurrently with jitter; same oracle, order by epoch
fn stress<TC: Configuration>(ctx: &Ctx, cc: &CaseCtx, rng: &mut Rng, l: &mut Local) {
    let rt = tokio::runtime::Builder::new_multi_thread().worker_threads(4).enable_time().build().expect("rt");
    let per_clone = ctx.tier.pick(25, 50);
    let cache = if rng.chance(1, 2) { CacheOpt::None } else { CacheOpt::Default };
    let seed = rng.next_u64();
    let verdict: Result<(u64, u64), (String, String)> = rt.block_on(async {
        let db = XDb::new();
        *db.ctl.jitter.lock().unwrap() = Some(Rng::new(seed));
        let mut w = World::<TC>::over(db.clone(), cache, AzksParallelismConfig::default(), KeyVrf::hard_coded())
            .await
            .map_err(|e| ("harness".to_string(), e.to_string()))?;
        let mut handles = vec![];
        for c in 0..4u32 {
            let d = w.dir.clone();
            handles.push(tokio::spawn(async move {
                let mut res = vec![];
                for i in 0..per_clone {
                    let batch: Batch = vec![
                        (format!("k{}", (c + i as u32) % 5).into_bytes(), format!("c{c}:{i}").into_bytes()),
                        (format!("own{c}").into_bytes(), format!("c{c}:{i}:own").into_bytes()),
                    ];
                    let r = d.publish(akd_batch(&batch)).await;
                    res.push((batch, r.map_err(|e| e.to_string())));
                    tokio::task::yield_now().await;
                }
                res
            }));
        }
        let mut all: Vec<(Batch, Result<EpochHash, String>)> = vec![];
        for h in handles {
            all.extend(h.await.map_err(|e| ("harness".to_string(), e.to_string()))?);
        }
        *db.ctl.jitter.lock().unwrap() = None;
        let mut succ: Vec<(Batch, EpochHash)> = all.iter().filter_map(|(b, r)| r.as_ref().ok().map(|e| (b.clone(), e.clone()))).collect();
        let n_fail = all.len() - succ.len();
        succ.sort_by_key(|s| s.1 .0);
        for (j, (b, eh)) in succ.iter().enumerate() {
            if eh.0 != j as u64 + 1 {
                return Err(("duplicate-or-non-consecutive-epoch".to_string(), format!("epochs returned by successful publishes: {:?}...", succ.iter().take(12).map(|s| s.1 .0).collect::<Vec<_>>())));
            }
            w.model.apply(b);
            let (root, _) = w.ref_root(eh.0).await;
            if root != eh.1 {
                return Err(("returned-hash-not-sequential".to_string(), format!("root returned for epoch {} differs from the sequential model", eh.0)));
            }
            w.published.push(eh.1);
        }
        let fe = succ.len() as u64;
        match w.dir.get_epoch_hash().await {
            Ok(eh) if eh.0 == fe && eh.1 == w.published[fe as usize] => {}
            other => return Err(("final-state-diverges".to_string(), format!("final epoch hash {:?} vs expected epoch {fe}", other.map(|e| e.0)))),
        }
        if fe >= 1 {
            let p = w.dir.audit(0, fe).await.map_err(|e| ("audit-fails".to_string(), e.to_string()))?;
            audit_verify::<TC>(w.published.clone(), p).await.map_err(|e| ("audit-rejects-returned-hashes".to_string(), e.to_string()))?;
        }
        Ok((succ.len() as u64, n_fail as u64))
    });
    l.eval(1);
    match verdict {
        Ok((s, f)) => {
            l.count("stress_publishes", s + f);
            l.count("stress_publishes_refused", f);
            l.case(format!("stress/{}/{}", cc.idx, cache.name()).as_bytes(), true);
        }
        Err((obs, msg)) if obs == "harness" => l.inconclusive(msg),
        Err((obs, msg)) => l.violation(format!("C12:stress/{obs}/{}", if cache == CacheOpt::None { "uncached" } else { "cached" }), msg, json!({"cache": cache.name(), "jitter_seed": seed, "clones": 4, "publishes_per_clone": per_clone})),
    }
}
