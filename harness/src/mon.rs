//! Monitor plumbing shared by all checks: counters of what was observed, distinct-case
//! accounting, violation collection, known-finding classification, evidence and replay files,
//! three-valued verdict -> exit code.

use crate::rng::{fnv, Rng};
use serde_json::{json, Map, Value};
use std::collections::{BTreeMap, HashSet};
use std::path::PathBuf;
use std::sync::atomic::{AtomicU64, Ordering};
use std::sync::Mutex;
use std::time::Instant;

#[derive(Clone, Copy, Debug, PartialEq, Eq)]
pub enum Tier {
    Quick,
    Thorough,
}

impl Tier {
    pub fn name(&self) -> &'static str {
        match self {
            Tier::Quick => "quick",
            Tier::Thorough => "thorough",
        }
    }
    /// pick by tier
    pub fn pick<T>(&self, quick: T, thorough: T) -> T {
        match self {
            Tier::Quick => quick,
            Tier::Thorough => thorough,
        }
    }
}

pub struct Ctx {
    pub prop: String,
    pub tier: Tier,
    pub seed: u64,
    pub root: PathBuf,
    pub workers: usize,
    /// replay mode: only the case with this id is executed
    pub replay_case: Option<String>,
    /// free-form extra argument (used by C14's transcript mode and sanitizer sub-runs)
    pub mode: Option<String>,
    /// listed (unfixed) known findings of this property
    pub known: std::sync::Arc<KnownSet>,
}

#[derive(Clone, Debug)]
pub struct Violation {
    /// stable identification of *what* fails (used for known-finding classification)
    pub signature: String,
    pub summary: String,
    pub case_id: String,
    pub detail: Value,
}

#[derive(Default)]
pub struct Local {
    pub counters: BTreeMap<String, u64>,
    pub distinct: HashSet<u64>,
    pub nontrivial: HashSet<u64>,
    pub evaluations: u64,
    pub samples: Vec<Value>,
    pub violations: Vec<Violation>,
    pub inconclusive: Vec<String>,
    pub case_id: String,
    /// known-finding id -> number of violations whose signature is listed
    pub known_counts: BTreeMap<String, u64>,
    /// distinct non-trivial cases that are distinct by construction (exhaustive enumerations)
    pub enumerated_distinct: u64,
    pub known: std::sync::Arc<KnownSet>,
}

impl Local {
    pub fn with_known(known: std::sync::Arc<KnownSet>) -> Self {
        Local { known, ..Default::default() }
    }
    /// cheap classification without building a violation (for bulk enumerations)
    pub fn known_id(&self, signature: &str) -> Option<String> {
        self.known.classify(signature)
    }
    pub fn known_hit(&mut self, id: &str) {
        *self.known_counts.entry(id.to_string()).or_insert(0) += 1;
    }
    pub fn count(&mut self, key: &str, n: u64) {
        *self.counters.entry(key.to_string()).or_insert(0) += n;
    }
    pub fn max(&mut self, key: &str, n: u64) {
        let e = self.counters.entry(key.to_string()).or_insert(0);
        if n > *e {
            *e = n;
        }
    }
    pub fn eval(&mut self, n: u64) {
        self.evaluations += n;
    }
    /// register a case by a canonical form; `nontrivial` per the check's stated rule
    pub fn case(&mut self, canon: &[u8], nontrivial: bool) {
        let h = fnv(canon);
        self.distinct.insert(h);
        if nontrivial {
            self.nontrivial.insert(h);
        }
    }
    pub fn case_h(&mut self, h: u64, nontrivial: bool) {
        self.distinct.insert(h);
        if nontrivial {
            self.nontrivial.insert(h);
        }
    }
    pub fn sample(&mut self, v: Value) {
        if self.samples.len() < 3 {
            self.samples.push(v);
        }
    }
    pub fn violation(&mut self, signature: impl Into<String>, summary: impl Into<String>, detail: Value) {
        let signature: String = signature.into();
        self.count("oracle_violations_raw", 1);
        if let Some(id) = self.known.classify(&signature) {
            *self.known_counts.entry(id).or_insert(0) += 1;
            return;
        }
        let v = Violation {
            signature,
            summary: summary.into(),
            case_id: self.case_id.clone(),
            detail,
        };
        // cap memory: keep at most 200 per local
        if self.violations.len() < 200 {
            self.violations.push(v);
        } else {
            self.count("violations_dropped_over_cap", 1);
        }
    }
    pub fn inconclusive(&mut self, why: impl Into<String>) {
        if self.inconclusive.len() < 20 {
            self.inconclusive.push(why.into());
        }
    }
}

pub struct Mon {
    inner: Mutex<Local>,
    pub start: Instant,
}

impl Default for Mon {
    fn default() -> Self {
        Self::new()
    }
}

impl Mon {
    pub fn new() -> Self {
        Mon {
            inner: Mutex::new(Local::default()),
            start: Instant::now(),
        }
    }
    pub fn absorb(&self, l: Local) {
        let mut g = self.inner.lock().unwrap();
        for (k, v) in l.counters {
            if k.starts_with("max_") {
                let e = g.counters.entry(k).or_insert(0);
                if v > *e {
                    *e = v;
                }
            } else {
                *g.counters.entry(k).or_insert(0) += v;
            }
        }
        g.distinct.extend(l.distinct);
        g.nontrivial.extend(l.nontrivial);
        g.evaluations += l.evaluations;
        g.enumerated_distinct += l.enumerated_distinct;
        for (k, v) in l.known_counts {
            *g.known_counts.entry(k).or_insert(0) += v;
        }
        for s in l.samples {
            if g.samples.len() < 6 {
                g.samples.push(s);
            }
        }
        for v in l.violations {
            if g.violations.len() < 5000 {
                g.violations.push(v);
            }
        }
        for s in l.inconclusive {
            if g.inconclusive.len() < 50 {
                g.inconclusive.push(s);
            }
        }
    }
    pub fn with<R>(&self, f: impl FnOnce(&mut Local) -> R) -> R {
        let mut g = self.inner.lock().unwrap();
        f(&mut g)
    }
    pub fn counter(&self, key: &str) -> u64 {
        *self.inner.lock().unwrap().counters.get(key).unwrap_or(&0)
    }
}

// ---------------------------------------------------------------------------------------------
// panic capture: where did the panic come from?

thread_local! {
    static LAST_PANIC: std::cell::RefCell<Option<(String, String)>> = const { std::cell::RefCell::new(None) };
}

pub fn install_panic_hook() {
    std::panic::set_hook(Box::new(|info| {
        let loc = info
            .location()
            .map(|l| format!("{}:{}", l.file(), l.line()))
            .unwrap_or_else(|| "?".to_string());
        let msg = if let Some(s) = info.payload().downcast_ref::<&str>() {
            s.to_string()
        } else if let Some(s) = info.payload().downcast_ref::<String>() {
            s.clone()
        } else {
            "<non-string panic>".to_string()
        };
        LAST_PANIC.with(|p| *p.borrow_mut() = Some((loc, msg)));
    }));
}

pub fn take_last_panic() -> Option<(String, String)> {
    LAST_PANIC.with(|p| p.borrow_mut().take())
}

/// true when the panic location is inside the code under test (not the harness, not std)
pub fn panic_is_in_repo(loc: &str) -> bool {
    (loc.contains("/repo/akd") || loc.starts_with("/repo/") || loc.contains("akd_core/src") || loc.contains("akd/src"))
        && !loc.contains("harness/src")
}

/// Run `f`, converting a panic inside akd into a violation and a panic inside the harness
/// into an inconclusive note.  Returns None when it panicked.
pub fn guarded<R>(l: &mut Local, prop_sig_prefix: &str, what: &str, f: impl FnOnce(&mut Local) -> R) -> Option<R> {
    let r = std::panic::catch_unwind(std::panic::AssertUnwindSafe(|| f(l)));
    match r {
        Ok(v) => Some(v),
        Err(_) => {
            let (loc, msg) = take_last_panic().unwrap_or(("?".into(), "?".into()));
            if panic_is_in_repo(&loc) {
                // strip the line number so the signature is stable across unrelated edits
                let file = loc.rsplit_once(':').map(|x| x.0).unwrap_or(&loc).to_string();
                let short: String = msg.chars().take(60).collect();
                l.violation(
                    format!("{prop_sig_prefix}panic@{file}:{short}"),
                    format!("panic inside akd during {what}: {msg} at {loc}"),
                    json!({"panic_location": loc, "message": msg, "during": what}),
                );
            } else {
                l.inconclusive(format!("harness panic during {what}: {msg} at {loc}"));
            }
            None
        }
    }
}

// ---------------------------------------------------------------------------------------------
// parallel case runner

pub struct CaseCtx {
    pub family: String,
    pub idx: u64,
    pub id: String,
}

/// Run `n` independent cases of `family` on `ctx.workers` threads.  Each case gets its own
/// generator derived from (seed, family, idx) — so a case id replays alone.
pub fn par_cases<F>(ctx: &Ctx, mon: &Mon, family: &str, n: u64, f: F)
where
    F: Fn(&CaseCtx, &mut Rng, &mut Local) + Sync,
{
    let next = AtomicU64::new(0);
    let workers = ctx.workers.max(1).min(n.max(1) as usize);
    // VERIF_CASE_TRACE=<path prefix>: every worker records the id of the case it is about to run, so that
    // ./check can tell which case was executing when the process died of a signal (stack overflow,
    // abort) - something catch_unwind cannot intercept.
    let trace = std::env::var("VERIF_CASE_TRACE").ok().filter(|s| !s.is_empty());
    let trace = &trace;
    let next = &next;
    let f = &f;
    std::thread::scope(|s| {
        for widx in 0..workers {
            s.spawn(move || {
                let mut local = Local::with_known(ctx.known.clone());
                loop {
                    let idx = next.fetch_add(1, Ordering::Relaxed);
                    if idx >= n {
                        break;
                    }
                    let id = format!("{family}/{idx}");
                    if let Some(want) = &ctx.replay_case {
                        if *want != id {
                            continue;
                        }
                    }
                    let cc = CaseCtx {
                        family: family.to_string(),
                        idx,
                        id: id.clone(),
                    };
                    if let Some(t) = trace {
                        let _ = std::fs::write(format!("{t}.{family}.{widx}"), &id);
                    }
                    let mut rng = Rng::derive(ctx.seed, family, idx);
                    local.case_id = id.clone();
                    let prefix = format!("{}:", ctx.prop);
                    guarded(&mut local, &prefix, &format!("case {id}"), |l| f(&cc, &mut rng, l));
                    if local.violations.len() >= 150 {
                        // flush early so that memory stays bounded
                        mon.absorb(std::mem::replace(&mut local, Local::with_known(ctx.known.clone())));
                    }
                }
                if let Some(t) = trace {
                    let _ = std::fs::remove_file(format!("{t}.{family}.{widx}"));
                }
                mon.absorb(local);
            });
        }
    });
}

thread_local! {
    static RT: tokio::runtime::Runtime = tokio::runtime::Builder::new_current_thread()
        .enable_time()
        .build()
        .expect("runtime");
}

/// block on a future using this thread's current-thread runtime
pub fn block_on<F: std::future::Future>(f: F) -> F::Output {
    RT.with(|rt| rt.block_on(f))
}

// ---------------------------------------------------------------------------------------------
// known findings

#[derive(Clone, Debug)]
pub struct KnownFinding {
    pub id: String,
    pub property: String,
    pub fixed: bool,
    /// exact signatures, or prefix patterns ending in '*'
    pub signatures: Vec<String>,
    /// optional file (relative to /verif) holding one signature per line
    pub signature_file: Option<String>,
    pub what_fails: String,
}

/// the unfixed known findings of one property, ready for classification
#[derive(Default)]
pub struct KnownSet {
    pub entries: Vec<(KnownFinding, HashSet<String>)>,
}

impl KnownSet {
    pub fn load(root: &std::path::Path, prop: &str) -> Self {
        KnownSet { entries: load_known(root, prop) }
    }
    pub fn classify(&self, sig: &str) -> Option<String> {
        for (kf, set) in &self.entries {
            if !kf.fixed && sig_matches(set, sig) {
                return Some(kf.id.clone());
            }
        }
        None
    }
}

pub fn load_known(root: &std::path::Path, prop: &str) -> Vec<(KnownFinding, HashSet<String>)> {
    let p = root.join("known_findings.json");
    let mut out = vec![];
    let Ok(txt) = std::fs::read_to_string(&p) else {
        return out;
    };
    let Ok(v) = serde_json::from_str::<Value>(&txt) else {
        eprintln!("warning: known_findings.json does not parse");
        return out;
    };
    for e in v.get("findings").and_then(|x| x.as_array()).cloned().unwrap_or_default() {
        if e.get("property").and_then(|x| x.as_str()) != Some(prop) {
            continue;
        }
        let kf = KnownFinding {
            id: e.get("id").and_then(|x| x.as_str()).unwrap_or("?").to_string(),
            property: prop.to_string(),
            fixed: e.get("fixed").and_then(|x| x.as_bool()).unwrap_or(false),
            signatures: e
                .get("signatures")
                .and_then(|x| x.as_array())
                .map(|a| a.iter().filter_map(|s| s.as_str().map(|s| s.to_string())).collect())
                .unwrap_or_default(),
            signature_file: e.get("signature_file").and_then(|x| x.as_str()).map(|s| s.to_string()),
            what_fails: e.get("what_fails").and_then(|x| x.as_str()).unwrap_or("").to_string(),
        };
        let mut set: HashSet<String> = kf.signatures.iter().cloned().collect();
        if let Some(f) = &kf.signature_file {
            if let Ok(t) = std::fs::read_to_string(root.join(f)) {
                for line in t.lines() {
                    let line = line.trim();
                    if !line.is_empty() && !line.starts_with('#') {
                        set.insert(line.to_string());
                    }
                }
            }
        }
        out.push((kf, set));
    }
    out
}

fn sig_matches(set: &HashSet<String>, sig: &str) -> bool {
    if set.contains(sig) {
        return true;
    }
    set.iter().any(|p| p.ends_with('*') && sig.starts_with(&p[..p.len() - 1]))
}

// ---------------------------------------------------------------------------------------------
// finishing a check

pub struct Spec {
    pub level: &'static str,
    pub rule: String,
    pub assumptions: Vec<String>,
    /// (counter name, minimum) — fewer observations than this => inconclusive
    pub thresholds: Vec<(String, u64)>,
    pub exhaustive: bool,
    pub min_nontrivial: u64,
}

impl Spec {
    pub fn new(level: &'static str, rule: &str) -> Self {
        Spec {
            level,
            rule: rule.to_string(),
            assumptions: vec![],
            thresholds: vec![],
            exhaustive: false,
            min_nontrivial: 2,
        }
    }
    pub fn assume(mut self, s: &str) -> Self {
        self.assumptions.push(s.to_string());
        self
    }
    pub fn need(mut self, counter: &str, min: u64) -> Self {
        self.thresholds.push((counter.to_string(), min));
        self
    }
}

/// Writes evidence + replay files, prints VIOLATION / KNOWN-FINDING lines, returns exit code.
pub fn finish(ctx: &Ctx, mon: &Mon, spec: Spec) -> i32 {
    let wall = mon.start.elapsed().as_secs_f64();
    let g = mon.inner.lock().unwrap();
    let known = load_known(&ctx.root, &ctx.prop);

    // violations were classified against the known-findings list when they were recorded
    let known_hits: BTreeMap<String, u64> = g.known_counts.clone();
    let fresh: Vec<&Violation> = g.violations.iter().collect();
    for (kf, _) in &known {
        if kf.fixed {
            continue;
        }
        if known_hits.contains_key(&kf.id) {
            println!(
                "KNOWN-FINDING: property={} {} [{}; reproduced {}x in this run]",
                ctx.prop, kf.what_fails, kf.id, known_hits[&kf.id]
            );
        } else {
            println!(
                "note: known finding {} of {} was not reproduced in this run (workload did not reach it, or it no longer occurs)",
                kf.id, ctx.prop
            );
        }
    }

    // replay files for fresh violations, one per signature
    let mut seen_sig: HashSet<String> = HashSet::new();
    let mut violation_lines = 0;
    let replay_dir = ctx.root.join("replays");
    // VERIF_SUBRUN=<name>: this process is a sanitizer / second-profile sub-run of sanitize.sh — it
    // must not overwrite the main run's evidence or delete its replay files.
    let subrun = std::env::var("VERIF_SUBRUN").ok().filter(|s| !s.is_empty());
    if ctx.replay_case.is_none() && ctx.mode.is_none() && subrun.is_none() {
        // replay files of earlier runs of this property are stale now
        if let Ok(rd) = std::fs::read_dir(&replay_dir) {
            for e in rd.flatten() {
                if e.file_name().to_string_lossy().starts_with(&format!("{}-", ctx.prop)) {
                    let _ = std::fs::remove_file(e.path());
                }
            }
        }
    }
    for v in &fresh {
        if !seen_sig.insert(v.signature.clone()) {
            continue;
        }
        if violation_lines >= 25 {
            continue;
        }
        let _ = std::fs::create_dir_all(&replay_dir);
        let name = match &subrun {
            Some(sr) => format!("{}-{}-{:016x}.json", ctx.prop, sr, fnv(v.signature.as_bytes()) ^ fnv(v.case_id.as_bytes())),
            None => format!("{}-{:016x}.json", ctx.prop, fnv(v.signature.as_bytes()) ^ fnv(v.case_id.as_bytes())),
        };
        let path = replay_dir.join(&name);
        let body = json!({
            "property": ctx.prop,
            "seed": ctx.seed,
            "tier": ctx.tier.name(),
            "case_id": v.case_id,
            "signature": v.signature,
            "summary": v.summary,
            "detail": v.detail,
            "replay": format!("VERIF_SEED={} ./check {} --replay replays/{}", ctx.seed, ctx.prop, name),
            "subrun": subrun,
            "mode": ctx.mode,
        });
        let _ = std::fs::write(&path, serde_json::to_string_pretty(&body).unwrap());
        println!("VIOLATION property={} replay=replays/{}", ctx.prop, name);
        println!("  what: {}", v.summary);
        violation_lines += 1;
    }

    // thresholds
    let mut unmet = vec![];
    if ctx.replay_case.is_none() {
        for (k, min) in &spec.thresholds {
            let have = *g.counters.get(k).unwrap_or(&0);
            if have < *min {
                unmet.push(format!("observed {k}={have} < required {min}"));
            }
        }
        if (g.nontrivial.len() as u64 + g.enumerated_distinct) < spec.min_nontrivial {
            unmet.push(format!(
                "distinct_nontrivial={} < required {}",
                g.nontrivial.len() as u64 + g.enumerated_distinct,
                spec.min_nontrivial
            ));
        }
        if g.evaluations == 0 {
            unmet.push("no evaluations".to_string());
        }
    }
    let mut inconclusive: Vec<String> = g.inconclusive.clone();
    inconclusive.extend(unmet);

    let verdict = if !fresh.is_empty() {
        "violated"
    } else if !inconclusive.is_empty() {
        "inconclusive"
    } else {
        "held"
    };

    let mut observed = Map::new();
    for (k, v) in &g.counters {
        observed.insert(k.clone(), json!(v));
    }
    let mut coverage = Map::new();
    coverage.insert("evaluations".into(), json!(g.evaluations));
    coverage.insert("distinct_nontrivial".into(), json!(g.nontrivial.len() as u64 + g.enumerated_distinct));
    coverage.insert("distinct_cases".into(), json!(g.distinct.len()));
    coverage.insert("rule".into(), json!(spec.rule));
    let mut samples = g.samples.clone();
    if samples.is_empty() {
        // a run that stopped at its first violation may not have reached its sampling point: the
        // violating case itself is an actual case of this run
        if let Some(v) = g.violations.first() {
            samples.push(json!({"case": v.case_id, "violating_case": v.summary, "detail": v.detail}));
        }
    }
    coverage.insert("samples".into(), json!(samples));
    if spec.exhaustive {
        coverage.insert("exhaustive".into(), json!(true));
    }
    coverage.insert("observed".into(), Value::Object(observed));

    let ev = json!({
        "property_id": ctx.prop,
        "tier": ctx.tier.name(),
        "seed": ctx.seed,
        "level": spec.level,
        "coverage": Value::Object(coverage),
        "assumptions": spec.assumptions,
        "wall_s": (wall * 1000.0).round() / 1000.0,
        "violations": fresh.len(),
        "verdict": verdict,
        "known_hits": known_hits,
        "inconclusive_reasons": inconclusive,
        "distinct_violation_signatures": seen_sig.len(),
    });
    if let (Some(sr), None) = (&subrun, &ctx.replay_case) {
        // sub-run summary for sanitize.sh to merge into the main evidence file
        let dir = ctx.root.join("harness").join("target").join("subruns");
        let _ = std::fs::create_dir_all(&dir);
        let _ = std::fs::write(dir.join(format!("{}-{}.json", ctx.prop, sr)), serde_json::to_string_pretty(&ev).unwrap());
    }
    if ctx.replay_case.is_none() && ctx.mode.is_none() && subrun.is_none() {
        let dir = ctx.root.join("evidence");
        let _ = std::fs::create_dir_all(&dir);
        let tmp = dir.join(format!("{}.json.tmp", ctx.prop));
        let dst = dir.join(format!("{}.json", ctx.prop));
        if std::fs::write(&tmp, serde_json::to_string_pretty(&ev).unwrap()).is_ok() {
            let _ = std::fs::rename(&tmp, &dst);
        }
    }

    println!(
        "{} {} seed={} verdict={} evaluations={} distinct_nontrivial={} violations={} known_hits={} wall={:.1}s",
        ctx.prop,
        ctx.tier.name(),
        ctx.seed,
        verdict,
        g.evaluations,
        g.nontrivial.len() as u64 + g.enumerated_distinct,
        fresh.len(),
        known_hits.values().sum::<u64>(),
        wall
    );
    for r in &inconclusive {
        println!("  inconclusive: {r}");
    }
    match verdict {
        "violated" => 1,
        "inconclusive" => 2,
        _ => 0,
    }
}
