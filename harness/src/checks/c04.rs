//! C04 — every epoch range can be audited against the published root hashes.

use crate::checks::histcase::HistCase;
use crate::common::*;
use crate::gen::history_json;
use crate::model::Applied;
use crate::mon::*;
use crate::with_cfg;
use crate::world::*;
use serde_json::json;

pub fn run(ctx: &Ctx) -> i32 {
    let mon = Mon::new();
    let n = ctx.tier.pick(1600, 3200);
    par_cases(ctx, &mon, "hist", n, |cc, rng, l| {
        let case = HistCase::random(rng, ctx.tier.pick(12, 40), ctx.tier.pick(12, 40), 8, false);
        let every_epoch = rng.chance(1, 3);
        let all_pairs = ctx.tier == Tier::Quick || rng.chance(1, 4);
        let seed = rng.next_u64();
        with_cfg!(case.cfg, TC, { block_on(run_case::<TC>(cc, &case, l, every_epoch, all_pairs, seed)) })
    });
    let big = ctx.tier.pick(2, 16);
    par_cases(ctx, &mon, "big", big, |cc, rng, l| {
        let case = HistCase::big(rng, ctx.tier.pick(300, 2000));
        let seed = rng.next_u64();
        with_cfg!(case.cfg, TC, { block_on(run_case::<TC>(cc, &case, l, true, true, seed)) })
    });
    finish(
        ctx,
        &mon,
        Spec::new(
            "exploration",
            "generated histories; audit(s,e) + audit_verify against the hashes returned by publish for ALL pairs 0<=s<e<=current after the last epoch and, for a third of the histories, after EVERY epoch (ranges ending before the latest epoch while later epochs exist); invalid requests must be refused. distinct = (history hash, s, e, current); non-trivial = e < current or e-s >= 2",
        )
        .assume("published root hashes are those returned by publish (tied to the reference by C01)")
        .need("audits_verified", ctx.tier.pick(3000, 40000))
        .need("audits_ending_before_latest", ctx.tier.pick(1000, 10000))
        .need("invalid_requests_refused", 500),
    )
}

async fn run_case<TC: Configuration>(cc: &CaseCtx, case: &HistCase, l: &mut Local, every_epoch: bool, all_pairs: bool, seed: u64) {
    let Ok(mut w) = World::<TC>::new(case.cache, case.par, KeyVrf::hard_coded()).await else {
        l.inconclusive("Directory::new failed");
        return;
    };
    let mut rng = crate::rng::Rng::new(seed);
    let hh = crate::rng::fnv(format!("{:?}{:?}", case.cfg, case.hist.batches).as_bytes());
    let nb = case.hist.batches.len();
    for (bi, batch) in case.hist.batches.iter().enumerate() {
        let (applied, res) = w.publish(batch).await;
        if let (Applied::Epoch(..), Err(e)) = (&applied, &res) {
            l.inconclusive(format!("publish failed in C04 case {}: {e}", cc.id));
            return;
        }
        let cur = w.model.epoch;
        if !(every_epoch || bi + 1 == nb) {
            continue;
        }
        let ctxj = |s: u64, e: u64| {
            json!({"cfg": case.cfg.name(), "cache": case.cache.name(), "par": par_name(&case.par), "start": s, "end": e,
                   "current_epoch": cur, "history": history_json(&case.hist.batches[..=bi])})
        };
        // invalid requests
        let mut invalid: Vec<(u64, u64)> = vec![(0, 0), (cur, cur), (0, cur + 1), (cur, cur + 1), (cur + 1, cur + 2)];
        if cur >= 2 {
            invalid.push((cur, cur - 1));
            invalid.push((2, 1));
            invalid.push((1, cur + 5));
        }
        for (s, e) in invalid {
            l.eval(1);
            match w.dir.audit(s, e).await {
                Err(_) => l.count("invalid_requests_refused", 1),
                Ok(_) => {
                    l.violation("C04:invalid-range-served", format!("audit({s},{e}) with current epoch {cur} returned a proof"), ctxj(s, e));
                    return;
                }
            }
        }
        let mut pairs: Vec<(u64, u64)> = vec![];
        for s in 0..cur {
            for e in (s + 1)..=cur {
                pairs.push((s, e));
            }
        }
        if !all_pairs && pairs.len() > 60 {
            rng.shuffle(&mut pairs);
            pairs.truncate(60);
        }
        if every_epoch && bi + 1 != nb && pairs.len() > 40 {
            // intermediate epochs of long histories: the ranges ending at cur and a sample of the rest
            rng.shuffle(&mut pairs);
            let mut keep: Vec<(u64, u64)> = pairs.iter().copied().filter(|(_, e)| *e == cur).take(10).collect();
            keep.extend(pairs.iter().copied().filter(|(_, e)| *e != cur).take(30));
            pairs = keep;
        }
        for (s, e) in pairs {
            l.eval(1);
            match w.dir.audit(s, e).await {
                Err(err) => {
                    l.violation("C04:audit-failed", format!("audit({s},{e}) with current epoch {cur} failed: {err}"), ctxj(s, e));
                    return;
                }
                Ok(proof) => {
                    let hashes: Vec<Digest> = w.published[s as usize..=e as usize].to_vec();
                    match akd::auditor::audit_verify::<TC>(hashes, proof).await {
                        Ok(()) => {
                            l.count("audits_verified", 1);
                            if e < cur {
                                l.count("audits_ending_before_latest", 1);
                            }
                            l.case_h(hh ^ (s << 40) ^ (e << 20) ^ cur, e < cur || e - s >= 2);
                        }
                        Err(err) => {
                            l.violation(
                                "C04:honest-audit-rejected",
                                format!("audit proof for ({s},{e}) at current epoch {cur} does not verify against the published hashes: {err}"),
                                ctxj(s, e),
                            );
                            return;
                        }
                    }
                }
            }
        }
    }
    l.sample(json!({"case": cc.id, "cfg": case.cfg.name(), "cache": case.cache.name(), "par": par_name(&case.par),
        "epochs": w.model.epoch, "every_epoch": every_epoch,
        "first_batches": history_json(&case.hist.batches[..case.hist.batches.len().min(3)])}));
}
