//! C05 — tree membership / non-membership proofs are sound and complete.
//! Trees are built directly with `Azks::batch_insert_nodes` from harness-chosen 256-bit labels, so
//! ground truth (the leaf set) is known; the adversarial prover assembles candidate proofs from
//! the real nodes of the real tree.

use crate::common::*;
use crate::mon::*;
use crate::prover::*;
use crate::refhash::{self};
use crate::rng::Rng;
use crate::with_cfg;
use crate::world::{cfg_of, to_rlabel};
use akd::client::{verify_membership_for_tests_only, verify_nonmembership_for_tests_only};
use serde_json::json;
use std::collections::BTreeMap;

pub type Mgr = StorageManager<AsyncInMemoryDatabase>;

pub struct BuiltTree<TC: Configuration> {
    pub db: AsyncInMemoryDatabase,
    pub mgr: Mgr,
    pub azks: Azks,
    /// ground truth: leaf label -> (value, insertion epoch)
    pub truth: BTreeMap<NodeLabel, (AzksValue, u64)>,
    pub view: TreeView<TC>,
}

/// labels that share prefixes of many different lengths
pub fn clustered_labels(rng: &mut Rng, n: usize) -> Vec<NodeLabel> {
    let interesting: Vec<u32> = vec![0, 1, 2, 6, 7, 8, 9, 15, 16, 17, 31, 32, 63, 64, 127, 128, 200, 247, 248, 249, 253, 254, 255];
    let mut out: Vec<NodeLabel> = vec![];
    while out.len() < n {
        let l = if out.is_empty() || rng.chance(1, 5) {
            NodeLabel::new(rng.arr32(), 256)
        } else {
            let base = *rng.pick(&out);
            let k = if rng.chance(2, 3) { *rng.pick(&interesting) } else { rng.below(256) as u32 };
            let mut l = flip_bit(&base, k);
            if rng.chance(1, 2) {
                // randomise the tail below the flipped bit
                let r = rng.arr32();
                for i in (k + 1)..256 {
                    if bit_at(&NodeLabel::new(r, 256), i) != bit_at(&l, i) {
                        l = flip_bit(&l, i);
                    }
                }
            }
            l
        };
        if !out.contains(&l) {
            out.push(l);
        }
    }
    out
}

pub async fn build_tree<TC: Configuration>(epochs: &[Vec<AzksElement>], par: AzksParallelismConfig) -> Result<BuiltTree<TC>, AkdError> {
    let db = AsyncInMemoryDatabase::new();
    let mgr = StorageManager::new_no_cache(db.clone());
    let mut azks = Azks::new::<TC, _>(&mgr).await?;
    let mut truth = BTreeMap::new();
    for batch in epochs {
        azks.batch_insert_nodes::<TC, _>(&mgr, batch.clone(), InsertMode::Directory, par).await?;
        for e in batch {
            truth.insert(e.label, (e.value, azks.latest_epoch));
        }
    }
    let view = TreeView::<TC>::load(&db, azks.latest_epoch).await;
    Ok(BuiltTree { db, mgr, azks, truth, view })
}

pub fn run(ctx: &Ctx) -> i32 {
    let mon = Mon::new();
    let n = ctx.tier.pick(800, 16000);
    par_cases(ctx, &mon, "tree", n, |cc, rng, l| {
        let cfg = if rng.chance(1, 2) { Cfg::Wa } else { Cfg::Exp };
        let size = match cc.idx % 8 {
            0 => (cc.idx / 8 % 4) as usize, // 0,1,2,3
            1..=5 => rng.range(2, ctx.tier.pick(40, 64)) as usize,
            _ => rng.range(40, ctx.tier.pick(64, 600)) as usize,
        };
        with_cfg!(cfg, TC, { block_on(run_case::<TC>(ctx, cc, rng, l, size)) })
    });
    finish(
        ctx,
        &mon,
        Spec::new(
            "exploration",
            "trees of 0..600 harness-chosen 256-bit leaves sharing prefixes of every length, 1-3 insertion epochs, both configurations; queries = every member, members with one bit flipped at boundary positions, random labels. Completeness: honest proofs of true statements verify. Soundness: every candidate assembled from real nodes (every node on the root->leaf path as claimed longest prefix, off-path anchors, swapped/altered children, altered siblings/directions/hashes/labels, truncated/extended paths, proofs transplanted from a sibling tree) that the verifier accepts must state something true. distinct = (tree size class, query relation, attack class, anchor depth class); non-trivial = adversarial candidate",
        )
        .assume("collision resistance of blake3 (no candidate needs a collision)")
        .need("honest_membership_accepted", ctx.tier.pick(500, 10000))
        .need("honest_nonmembership_accepted", ctx.tier.pick(500, 10000))
        .need("adversarial_candidates", ctx.tier.pick(50000, 1000000))
        .need("shallow_anchor_candidates", ctx.tier.pick(2000, 50000)),
    )
}

fn size_class(n: usize) -> &'static str {
    match n {
        0 => "0",
        1 => "1",
        2..=3 => "2-3",
        4..=16 => "4-16",
        17..=64 => "17-64",
        _ => "65+",
    }
}

fn depth_class(len: u32) -> &'static str {
    match len {
        0 => "root",
        1..=8 => "1-8",
        9..=64 => "9-64",
        65..=255 => "65-255",
        _ => "leaf",
    }
}

/// All single-point mutations of a membership proof, tagged by class.
pub fn mutate_membership(rng: &mut Rng, p: &MembershipProof) -> Vec<(&'static str, MembershipProof)> {
    let mut out = vec![];
    let flip_hash = |h: &AzksValue, rng: &mut Rng| {
        let mut v = h.0;
        v[rng.usize_below(32)] ^= 1 << rng.below(8);
        AzksValue(v)
    };
    {
        let mut q = p.clone();
        q.hash_val = flip_hash(&q.hash_val, rng);
        out.push(("m-hash-val-altered", q));
    }
    if p.label.label_len > 0 {
        let mut q = p.clone();
        q.label = flip_bit(&q.label, rng.below(p.label.label_len as u64) as u32);
        out.push(("m-label-bit-flipped", q));
    }
    for i in 0..p.sibling_proofs.len() {
        let mut q = p.clone();
        q.sibling_proofs[i].siblings[0].value = flip_hash(&q.sibling_proofs[i].siblings[0].value, rng);
        out.push(("m-sibling-hash-altered", q));
        let mut q = p.clone();
        q.sibling_proofs[i].direction = q.sibling_proofs[i].direction.other();
        out.push(("m-direction-flipped", q));
        let mut q = p.clone();
        let sl = q.sibling_proofs[i].siblings[0].label;
        if sl.label_len > 0 {
            q.sibling_proofs[i].siblings[0].label = flip_bit(&sl, rng.below(sl.label_len as u64) as u32);
            out.push(("m-sibling-label-altered", q));
        }
        if i > 0 {
            // the parent's label at level i enters the hash one level up
            let mut q = p.clone();
            let pl = q.sibling_proofs[i].label;
            if pl.label_len > 0 {
                q.sibling_proofs[i].label = flip_bit(&pl, rng.below(pl.label_len as u64) as u32);
                out.push(("m-parent-label-altered", q));
            }
        }
        let mut q = p.clone();
        q.sibling_proofs.remove(i);
        out.push(("m-level-removed", q));
        let mut q = p.clone();
        let dup = q.sibling_proofs[i].clone();
        q.sibling_proofs.insert(i, dup);
        out.push(("m-level-duplicated", q));
    }
    if p.sibling_proofs.len() >= 2 {
        let mut q = p.clone();
        q.sibling_proofs.swap(0, 1);
        out.push(("m-levels-swapped", q));
    }
    out
}

pub fn mutate_nonmembership<TC: Configuration>(rng: &mut Rng, p: &NonMembershipProof) -> Vec<(&'static str, NonMembershipProof)> {
    let mut out = vec![];
    {
        let mut q = p.clone();
        q.longest_prefix_children.swap(0, 1);
        out.push(("nm-children-swapped", q));
    }
    for c in 0..2 {
        let mut q = p.clone();
        q.longest_prefix_children[c].value.0[rng.usize_below(32)] ^= 1 << rng.below(8);
        out.push(("nm-child-hash-altered", q));
        let cl = p.longest_prefix_children[c].label;
        if cl.label_len > 0 {
            let mut q = p.clone();
            q.longest_prefix_children[c].label = flip_bit(&cl, rng.below(cl.label_len as u64) as u32);
            out.push(("nm-child-label-altered", q));
        }
        let mut q = p.clone();
        q.longest_prefix_children[c] = AzksElement { label: TC::empty_label(), value: TC::empty_node_hash() };
        out.push(("nm-child-replaced-by-empty", q));
        // pretend the child that leads to the queried label is some other existing element
        let mut q = p.clone();
        q.longest_prefix_children[c] = p.longest_prefix_children[1 - c];
        out.push(("nm-child-duplicated", q));
    }
    for k in [0u32, 1, p.longest_prefix.label_len.saturating_sub(1), p.longest_prefix.label_len + 1, 255, 256] {
        if k != p.longest_prefix.label_len && k <= 256 {
            let mut q = p.clone();
            q.longest_prefix = p.label.get_prefix(k);
            out.push(("nm-longest-prefix-replaced", q));
        }
    }
    for (cls, m) in mutate_membership(rng, &p.longest_prefix_membership_proof) {
        let mut q = p.clone();
        q.longest_prefix_membership_proof = m;
        out.push((cls, q));
    }
    out
}

struct Judge<'a, TC: Configuration> {
    t: &'a BuiltTree<TC>,
    cfg: Cfg,
    size: usize,
}

impl<'a, TC: Configuration> Judge<'a, TC> {
    /// soundness of an accepted membership proof: (label, hash) must be a real node; for a leaf,
    /// the hash must be the true leaf hash from the harness's own leaf set
    fn membership(&self, l: &mut Local, class: &str, p: &MembershipProof) {
        l.count("adversarial_candidates", 1);
        l.eval(1);
        let accepted = verify_membership_for_tests_only::<TC>(self.t.view.root_hash, p).is_ok();
        if !accepted {
            l.count("adversarial_rejected", 1);
            return;
        }
        l.count("adversarial_accepted_true_statement_or_violation", 1);
        let mut truth = self.t.view.has_node(&p.label, &p.hash_val);
        if p.label.label_len == 256 {
            truth = match self.t.truth.get(&p.label) {
                Some((v, e)) => TC::hash_leaf_with_commitment(*v, *e).0 == p.hash_val.0,
                None => false,
            };
        }
        let canon = format!("{}/m/{}/{}", size_class(self.size), class, depth_class(p.label.label_len));
        l.case(canon.as_bytes(), true);
        if !truth {
            l.violation(
                format!("C05:membership-accepted-false/{class}"),
                format!("membership proof ({class}) for a node that is not in the tree was accepted"),
                json!({"cfg": self.cfg.name(), "leaves": self.size, "class": class, "label": label_str(&p.label),
                       "hash_val": hex::encode(p.hash_val.0), "levels": p.sibling_proofs.len()}),
            );
        }
    }

    /// soundness of an accepted non-membership proof: the label must be absent AND the anchor must
    /// be the deepest node whose label is a prefix of the query
    fn nonmembership(&self, l: &mut Local, class: &str, p: &NonMembershipProof) {
        l.count("adversarial_candidates", 1);
        l.eval(1);
        let accepted = verify_nonmembership_for_tests_only::<TC>(self.t.view.root_hash, p).is_ok();
        let member = self.t.truth.contains_key(&p.label);
        let deepest = self.t.view.deepest_prefix(&p.label);
        let anchor_ok = p.longest_prefix == deepest;
        let canon = format!(
            "{}/nm/{}/{}/{}/{}",
            size_class(self.size),
            class,
            if member { "member" } else { "absent" },
            if anchor_ok { "deepest" } else { "shallow" },
            depth_class(p.longest_prefix.label_len)
        );
        l.case(canon.as_bytes(), true);
        if !accepted {
            l.count("adversarial_rejected", 1);
            return;
        }
        l.count("adversarial_accepted_true_statement_or_violation", 1);
        if member || !anchor_ok {
            let stmt = if member { "non-membership-of-a-member" } else { "shallow-anchor-for-absent-label" };
            l.violation(
                format!("C05:nonmembership-accepted/{class}/{stmt}"),
                format!(
                    "non-membership proof ({class}) accepted although {}",
                    if member { "the label IS a leaf of the tree" } else { "its anchor is not the deepest matching node" }
                ),
                json!({"cfg": self.cfg.name(), "leaves": self.size, "class": class, "query": label_str(&p.label),
                       "query_is_member": member, "claimed_longest_prefix": label_str(&p.longest_prefix),
                       "deepest_matching_node": label_str(&deepest),
                       "children": [label_str(&p.longest_prefix_children[0].label), label_str(&p.longest_prefix_children[1].label)],
                       "leaf_labels": self.t.truth.keys().take(12).map(label_str).collect::<Vec<_>>()}),
            );
        }
    }
}

async fn run_case<TC: Configuration>(ctx: &Ctx, cc: &CaseCtx, rng: &mut Rng, l: &mut Local, size: usize) {
    let cfg = cfg_of::<TC>();
    let labels = clustered_labels(rng, size);
    // 1..3 insertion epochs
    let n_epochs = if size == 0 { 1 } else { rng.range(1, 3) as usize };
    let mut epochs: Vec<Vec<AzksElement>> = vec![vec![]; n_epochs];
    for lab in &labels {
        let e = rng.usize_below(n_epochs);
        epochs[e].push(AzksElement { label: *lab, value: AzksValue(rng.arr32()) });
    }
    if n_epochs > 1 && epochs[0].is_empty() && size > 0 {
        let x = epochs.iter_mut().find(|v| !v.is_empty()).unwrap().pop().unwrap();
        epochs[0].push(x);
    }
    let par = if rng.chance(1, 4) { AzksParallelismConfig::default() } else { AzksParallelismConfig::disabled() };
    let t = match build_tree::<TC>(&epochs, par).await {
        Ok(t) => t,
        Err(e) => {
            l.violation("C05:tree-build-failed", format!("batch_insert_nodes failed on a valid leaf set: {e}"), json!({"size": size}));
            return;
        }
    };
    // sanity: the tree's root equals the reference root over the ground-truth leaf set
    let mut rl: Vec<_> = t.truth.iter().map(|(k, (v, e))| (to_rlabel(k), refhash::leaf_hash(cfg, &v.0, *e))).collect();
    let want_root = refhash::root_hash(cfg, &mut rl).unwrap();
    let got_root = t.azks.get_root_hash::<TC, _>(&t.mgr).await.unwrap();
    l.count("tree_roots_compared_with_reference", 1);
    if got_root != want_root || got_root != t.view.root_hash {
        l.violation(
            "C05:tree-root-differs-from-reference",
            "root hash of a directly built tree differs from the reference trie",
            json!({"cfg": cfg.name(), "leaves": labels.iter().map(label_str).collect::<Vec<_>>(), "epochs": n_epochs}),
        );
        return;
    }
    let j = Judge::<TC> { t: &t, cfg, size };

    // sibling tree for transplants: same labels, other values
    let other = if size > 0 && rng.chance(1, 3) {
        let epochs_b: Vec<Vec<AzksElement>> =
            epochs.iter().map(|b| b.iter().map(|e| AzksElement { label: e.label, value: AzksValue(rng.arr32()) }).collect()).collect();
        build_tree::<TC>(&epochs_b, par).await.ok()
    } else {
        None
    };

    // queries
    let mut queries: Vec<NodeLabel> = vec![];
    let max_members = ctx.tier.pick(24, 48);
    let mut members = labels.clone();
    rng.shuffle(&mut members);
    members.truncate(max_members);
    let flips: Vec<u32> = vec![0, 1, 7, 8, 9, 15, 16, 63, 64, 127, 128, 247, 248, 253, 254, 255];
    for m in &members {
        queries.push(*m);
        let k = ctx.tier.pick(3, 6);
        for _ in 0..k {
            queries.push(flip_bit(m, *rng.pick(&flips)));
        }
    }
    for _ in 0..4 {
        queries.push(NodeLabel::new(rng.arr32(), 256));
    }

    for q in &queries {
        let member = t.truth.contains_key(q);
        let rel = if member { "member" } else { "absent" };
        // ---- completeness (honest prover = akd's own proof generation)
        match t.azks.get_membership_proof::<TC, _>(&t.mgr, *q).await {
            Err(e) => {
                l.violation("C05:honest-membership-generation-failed", format!("get_membership_proof failed: {e}"), json!({"query": label_str(q)}));
            }
            Ok(mp) => {
                if member {
                    l.eval(1);
                    let (v, e) = t.truth[q];
                    let true_hash = TC::hash_leaf_with_commitment(v, e).0;
                    let ok = verify_membership_for_tests_only::<TC>(t.view.root_hash, &mp).is_ok();
                    if ok && mp.label == *q && mp.hash_val.0 == true_hash {
                        l.count("honest_membership_accepted", 1);
                        if Some(&mp) != t.view.membership(q).as_ref() {
                            l.count("harness_prover_differs_from_akd_prover_diagnostic", 1);
                        }
                    } else {
                        l.violation(
                            "C05:honest-membership-rejected",
                            "honest membership proof of a member does not verify or carries a wrong label/hash",
                            json!({"cfg": cfg.name(), "leaves": size, "query": label_str(q), "verified": ok, "proof_label": label_str(&mp.label)}),
                        );
                    }
                } else {
                    // the server cannot produce a membership proof for an absent label: whatever it
                    // returns must not be an accepted proof *for q*
                    if mp.label == *q && verify_membership_for_tests_only::<TC>(t.view.root_hash, &mp).is_ok() {
                        l.violation("C05:membership-of-absent-label", "membership proof for an absent label verified", json!({"query": label_str(q)}));
                    }
                    j.membership(l, "m-honest-generator-on-absent-label", &mp);
                }
            }
        }
        match t.azks.get_non_membership_proof::<TC, _>(&t.mgr, *q).await {
            Err(e) => {
                if !member {
                    l.violation(
                        "C05:honest-nonmembership-generation-failed",
                        format!("get_non_membership_proof of an absent label failed: {e}"),
                        json!({"cfg": cfg.name(), "leaves": size, "query": label_str(q)}),
                    );
                }
            }
            Ok(nm) => {
                l.eval(1);
                let ok = verify_nonmembership_for_tests_only::<TC>(t.view.root_hash, &nm);
                if member {
                    l.count("honest_generator_on_member_checked", 1);
                    if ok.is_ok() {
                        l.violation(
                            "C05:nonmembership-accepted/honest-generator/non-membership-of-a-member",
                            "the server's own non-membership proof for a MEMBER verifies",
                            json!({"cfg": cfg.name(), "leaves": size, "query": label_str(q)}),
                        );
                    }
                } else if let Err(e) = ok {
                    l.violation(
                        format!("C05:honest-nonmembership-rejected/leaves={}", size_class(size)),
                        format!("honest non-membership proof of an absent label does not verify: {e}"),
                        json!({"cfg": cfg.name(), "leaves": size, "query": label_str(q), "longest_prefix": label_str(&nm.longest_prefix),
                               "children": [label_str(&nm.longest_prefix_children[0].label), label_str(&nm.longest_prefix_children[1].label)]}),
                    );
                } else {
                    l.count("honest_nonmembership_accepted", 1);
                    if nm.longest_prefix != t.view.deepest_prefix(q) {
                        l.violation("C05:honest-nonmembership-shallow", "honest generator anchored above the deepest matching node", json!({"query": label_str(q)}));
                    }
                    // (ii) mutations of the honest proof
                    for (cls, m) in mutate_nonmembership::<TC>(rng, &nm) {
                        j.nonmembership(l, cls, &m);
                    }
                }
            }
        }
        // ---- (i) every node on the root->q path as claimed longest prefix
        let path = t.view.path(q);
        for (pi, anchor) in path.iter().enumerate() {
            if let Some(p) = t.view.nonmembership_at(q, anchor) {
                let shallow = pi + 1 != path.len();
                if shallow {
                    l.count("shallow_anchor_candidates", 1);
                }
                j.nonmembership(l, if shallow { "nm-anchor-shallow" } else { "nm-anchor-deepest" }, &p);
                if shallow && rng.chance(1, 6) {
                    for (cls, m) in mutate_nonmembership::<TC>(rng, &p) {
                        j.nonmembership(l, cls, &m);
                    }
                }
            }
        }
        // off-path anchors: siblings of path nodes, random nodes
        for w in path.windows(2) {
            let parent = &t.view.nodes[&w[0]];
            let other_child = if parent.left_child == Some(w[1]) { parent.right_child } else { parent.left_child };
            if let Some(oc) = other_child {
                if let Some(p) = t.view.nonmembership_at(q, &oc) {
                    j.nonmembership(l, "nm-anchor-off-path", &p);
                }
            }
        }
        // ---- (ii) mutations of the honest membership proof
        if member {
            if let Some(mp) = t.view.membership(q) {
                for (cls, m) in mutate_membership(rng, &mp) {
                    j.membership(l, cls, &m);
                }
                // the same path offered for a neighbouring absent label
                let mut m2 = mp.clone();
                m2.label = flip_bit(q, 255);
                j.membership(l, "m-path-reused-for-neighbour", &m2);
            }
        }
        // ---- (iii) transplants from the sibling tree
        if let Some(o) = &other {
            if let Some(mp) = o.view.membership(q) {
                j.membership(l, "m-transplanted-from-other-tree", &mp);
            }
            let dp = o.view.deepest_prefix(q);
            if let Some(p) = o.view.nonmembership_at(q, &dp) {
                // statement may be true (q absent in both); the membership part is from another tree
                l.count("adversarial_candidates", 1);
                l.eval(1);
                let accepted = verify_nonmembership_for_tests_only::<TC>(t.view.root_hash, &p).is_ok();
                let same_node = t.view.nodes.get(&dp).map(|n| t.view.elem(n)) == o.view.nodes.get(&dp).map(|n| o.view.elem(n));
                l.case(format!("{}/nm-transplant/{rel}", size_class(size)).as_bytes(), true);
                if accepted && !same_node {
                    l.violation(
                        "C05:nonmembership-accepted/nm-transplanted-from-other-tree",
                        "non-membership proof built from another tree's nodes verified",
                        json!({"cfg": cfg.name(), "query": label_str(q)}),
                    );
                }
            }
        }
    }
    l.sample(json!({"case": cc.id, "cfg": cfg.name(), "leaves": size, "insertion_epochs": n_epochs, "queries": queries.len(),
        "first_labels": labels.iter().take(3).map(label_str).collect::<Vec<_>>()}));
}
