//! C02 — lookup returns a verifying proof of the latest value for every published label.

use crate::checks::histcase::HistCase;
use crate::common::*;
use crate::gen::history_json;
use crate::model::Applied;
use crate::mon::*;
use crate::with_cfg;
use crate::world::*;
use serde_json::json;

pub fn run(ctx: &Ctx) -> i32 {
    let mon = Mon::new();
    let n = ctx.tier.pick(1200, 9000);
    par_cases(ctx, &mon, "hist", n, |cc, rng, l| {
        let case = HistCase::random(rng, ctx.tier.pick(12, 30), ctx.tier.pick(10, 24), 6, false);
        with_cfg!(case.cfg, TC, { block_on(run_case::<TC>(cc, &case, l)) })
    });
    // hot label: versions cross every power of two while other labels stay idle
    let hot = ctx.tier.pick(32, 160);
    par_cases(ctx, &mon, "hot", hot, |cc, rng, l| {
        let case = HistCase::random(rng, ctx.tier.pick(40, 140), 5, 3, true);
        with_cfg!(case.cfg, TC, { block_on(run_case::<TC>(cc, &case, l)) })
    });
    finish(
        ctx,
        &mon,
        Spec::new(
            "exploration",
            "generated histories incl. hot-label histories (one label driven to version 40 quick / 140 thorough); after EVERY epoch EVERY label of the universe (published or not) is looked up, the proof verified with the directory's public key against the returned epoch hash, and (value, version, epoch) compared with the reference model; batch_lookup compared per label. distinct = (version, idle epochs, total versions at that epoch, cfg); non-trivial = version >= 2 or idle >= 2 epochs",
        )
        .assume("published root hashes are those returned by publish (tied to the reference by C01)")
        .need("lookups_verified", ctx.tier.pick(2000, 50000))
        .need("unpublished_lookups_refused", 20)
        .need("batch_lookups", 50)
        .need("max_version_looked_up", ctx.tier.pick(33, 129)),
    )
}

async fn run_case<TC: Configuration>(cc: &CaseCtx, case: &HistCase, l: &mut Local) {
    let Ok(mut w) = World::<TC>::new(case.cache, case.par, KeyVrf::hard_coded()).await else {
        l.inconclusive("Directory::new failed");
        return;
    };
    let mut rng = crate::rng::Rng::derive(cc.idx, "c02-inner", 0);
    for (bi, batch) in case.hist.batches.iter().enumerate() {
        let (applied, res) = w.publish(batch).await;
        if let (Applied::Epoch(..), Err(e)) = (&applied, &res) {
            l.inconclusive(format!("publish failed in C02 case {}: {e} (C01 decides publish)", cc.id));
            return;
        }
        let epoch = w.model.epoch;
        if epoch == 0 {
            continue;
        }
        let want_eh = EpochHash(epoch, w.published[epoch as usize]);
        let ctxj = |label: &[u8]| {
            json!({"cfg": case.cfg.name(), "cache": case.cache.name(), "par": par_name(&case.par), "label": hx(label),
                   "epoch": epoch, "history": history_json(&case.hist.batches[..=bi])})
        };
        let mut singles: Vec<(Vec<u8>, LookupProof)> = vec![];
        for label in &case.hist.universe {
            l.eval(1);
            let r = w.dir.lookup(AkdLabel(label.clone())).await;
            match (w.model.latest(label, epoch).cloned(), r) {
                (None, Ok(_)) => {
                    l.violation("C02:unpublished-label-served", "lookup of a never-published label returned a proof", ctxj(label));
                    return;
                }
                (None, Err(_)) => l.count("unpublished_lookups_refused", 1),
                (Some(_), Err(e)) => {
                    l.violation("C02:lookup-failed", format!("lookup of a published label failed: {e}"), ctxj(label));
                    return;
                }
                (Some(want), Ok((proof, eh))) => {
                    if eh != want_eh {
                        l.violation(
                            "C02:wrong-epoch-hash",
                            format!("lookup returned ({}, {}) but the directory published ({}, {})", eh.0, hx(&eh.1), want_eh.0, hx(&want_eh.1)),
                            ctxj(label),
                        );
                        return;
                    }
                    match w.verify_lookup(&eh, label, proof.clone()) {
                        Err(e) => {
                            l.violation("C02:honest-proof-rejected", format!("lookup proof does not verify: {e}"), ctxj(label));
                            return;
                        }
                        Ok(vr) => {
                            l.count("lookups_verified", 1);
                            l.max("max_version_looked_up", vr.version);
                            if !ver_matches(&want, &vr) {
                                l.violation(
                                    "C02:wrong-result",
                                    format!("verified lookup result {} != model {}", vr_json(&vr), ver_json(&want)),
                                    ctxj(label),
                                );
                                return;
                            }
                            let idle = epoch - want.epoch;
                            let total = w.model.history(label, epoch).len();
                            let canon = format!("{:?}/{}/{}/{}", case.cfg, want.version, idle.min(40), total);
                            l.case(canon.as_bytes(), want.version >= 2 || idle >= 2);
                            if want.version.is_power_of_two() {
                                l.count("lookups_at_power_of_two_version", 1);
                            }
                        }
                    }
                    singles.push((label.clone(), proof));
                }
            }
        }
        // batched lookup of a random subset of published labels
        if !singles.is_empty() {
            let k = 1 + rng.usize_below(singles.len().min(5));
            let mut idxs: Vec<usize> = (0..singles.len()).collect();
            rng.shuffle(&mut idxs);
            let chosen: Vec<usize> = idxs.into_iter().take(k).collect();
            let labels: Vec<AkdLabel> = chosen.iter().map(|i| AkdLabel(singles[*i].0.clone())).collect();
            l.count("batch_lookups", 1);
            match w.dir.batch_lookup(&labels).await {
                Err(e) => {
                    l.violation("C02:batch-lookup-failed", format!("batch_lookup of published labels failed: {e}"), ctxj(&labels[0].0));
                    return;
                }
                Ok((proofs, eh)) => {
                    if eh != want_eh || proofs.len() != labels.len() {
                        l.violation("C02:batch-wrong-epoch-hash", "batch_lookup returned another epoch hash or a wrong number of proofs", ctxj(&labels[0].0));
                        return;
                    }
                    for (j, p) in proofs.into_iter().enumerate() {
                        let (label, single) = &singles[chosen[j]];
                        if p != *single {
                            l.count("batch_proof_structurally_differs_diagnostic", 1);
                        }
                        let a = w.verify_lookup(&eh, label, p);
                        let b = w.verify_lookup(&eh, label, single.clone());
                        l.count("batch_proofs_verified", 1);
                        match (a, b) {
                            (Ok(x), Ok(y)) if x == y => {}
                            (x, y) => {
                                l.violation(
                                    "C02:batch-differs-from-single",
                                    format!("batch_lookup result {:?} differs from single lookup {:?}", x.map(|v| vr_json(&v)), y.map(|v| vr_json(&v))),
                                    ctxj(label),
                                );
                                return;
                            }
                        }
                    }
                }
            }
            // the whole published universe in one batch, in random order, sometimes with one label repeated
            // (a repeated label may be refused as a whole; if it is served, every position must verify)
            {
                let mut all: Vec<Vec<u8>> = singles.iter().map(|s| s.0.clone()).collect();
                let dup = rng.chance(1, 3);
                if dup {
                    let d = all[rng.usize_below(all.len())].clone();
                    all.push(d);
                }
                rng.shuffle(&mut all);
                let ls: Vec<AkdLabel> = all.iter().map(|x| AkdLabel(x.clone())).collect();
                l.count("full_universe_batches", 1);
                match w.dir.batch_lookup(&ls).await {
                    Err(e) if dup => {
                        let _ = e;
                        l.count("batch_with_repeated_label_refused", 1)
                    }
                    Err(e) => {
                        l.violation("C02:batch-lookup-failed", format!("batch_lookup of all {} published labels failed: {e}", ls.len()), ctxj(&ls[0].0));
                        return;
                    }
                    Ok((proofs, eh)) => {
                        if eh != want_eh || proofs.len() != ls.len() {
                            l.violation("C02:batch-wrong-epoch-hash", "batch_lookup (full universe) returned another epoch hash or a wrong number of proofs", ctxj(&ls[0].0));
                            return;
                        }
                        for (label, p) in all.iter().zip(proofs.into_iter()) {
                            l.count("batch_proofs_verified", 1);
                            let want = w.model.latest(label, epoch).cloned();
                            match (w.verify_lookup(&eh, label, p), want) {
                                (Ok(vr), Some(m)) if ver_matches(&m, &vr) => {}
                                (got, want) => {
                                    l.violation(
                                        "C02:batch-differs-from-model",
                                        format!("position of {} in a full-universe batch{}: verified to {:?}, model says {:?}", hx(label), if dup { " (one label repeated)" } else { "" }, got.map(|v| vr_json(&v)), want.map(|m| ver_json(&m))),
                                        ctxj(label),
                                    );
                                    return;
                                }
                            }
                        }
                    }
                }
                // the empty batch
                match w.dir.batch_lookup(&[]).await {
                    Ok((ps, eh)) if ps.is_empty() && eh == want_eh => l.count("empty_batches", 1),
                    Ok(_) => {
                        l.violation("C02:empty-batch-wrong", "batch_lookup of no labels returned proofs or another epoch hash", ctxj(b""));
                        return;
                    }
                    Err(_) => l.count("empty_batch_refused", 1),
                }
            }
            // a batch containing one never-published label: allowed to fail as a whole, must not serve it
            if let Some(unpub) = case.hist.universe.iter().find(|u| w.model.latest(u, epoch).is_none()) {
                let mut ls = labels.clone();
                ls.push(AkdLabel(unpub.clone()));
                match w.dir.batch_lookup(&ls).await {
                    Err(_) => l.count("batch_with_unpublished_refused", 1),
                    Ok((ps, _)) => {
                        if ps.len() == ls.len() {
                            l.violation("C02:unpublished-label-served", "batch_lookup served a never-published label", ctxj(unpub));
                            return;
                        }
                    }
                }
            }
        }
    }
    // ---- read-fault sweep: a lookup that returns Ok must still verify to the model (a storage read that
    // fails during proof generation has to surface as an error, never as a proof of something else)
    let epoch = w.model.epoch;
    if epoch >= 1 && cc.idx % 4 == 0 {
        let want_eh = EpochHash(epoch, w.published[epoch as usize]);
        for label in w.model.labels().into_iter().take(2) {
            w.db.ctl.reset_counters();
            if w.dir.lookup(AkdLabel(label.clone())).await.is_err() {
                break;
            }
            let n_ops = w.db.ctl.n_ops();
            for k in 1..=n_ops {
                w.db.ctl.reset_counters();
                w.db.ctl.set_fault(Some(crate::xdb::fail_at(k, false, k % 2 == 0)));
                let r = w.dir.lookup(AkdLabel(label.clone())).await;
                let reached = w.db.ctl.injected.load(std::sync::atomic::Ordering::SeqCst) > 0;
                w.db.ctl.set_fault(None);
                if !reached {
                    continue;
                }
                l.eval(1);
                l.count("lookups_with_injected_read_fault", 1);
                match r {
                    Err(_) => l.count("faulted_lookups_refused", 1),
                    Ok((p, eh)) => {
                        let ok = eh == want_eh && matches!((w.verify_lookup(&eh, &label, p), w.model.latest(&label, epoch)), (Ok(vr), Some(m)) if ver_matches(m, &vr));
                        if ok {
                            l.count("faulted_lookups_still_correct", 1);
                        } else {
                            l.violation(
                                "C02:read-fault-swallowed",
                                format!("storage read {k} of {n_ops} failed during lookup, yet lookup returned Ok with a proof that does not verify to the latest value"),
                                json!({"cfg": case.cfg.name(), "cache": case.cache.name(), "label": hx(&label), "failed_read": k, "of": n_ops, "history": history_json(&case.hist.batches)}),
                            );
                            return;
                        }
                    }
                }
            }
        }
    }
    l.sample(json!({"case": cc.id, "cfg": case.cfg.name(), "cache": case.cache.name(), "epochs": w.model.epoch,
        "labels": case.hist.universe.len(), "first_batches": history_json(&case.hist.batches[..case.hist.batches.len().min(3)])}));
}
