//! C11 — a reader of a partially written commit still sees the previous epoch intact.
//! Crash-point enumeration: the commit's record list is captured at the Database boundary and every
//! subset (small commits) / many prefixes and random subsets (large commits) of the non-epoch
//! records is applied to a copy of the pre-commit database; a fresh reader is opened on each.

use crate::checks::histcase::HistCase;
use crate::common::*;
use crate::gen::{batch_json, history_json};
use crate::model::{Applied, Model};
use crate::mon::*;
use crate::rng::Rng;
use crate::with_cfg;
use crate::world::*;
use crate::xdb::XDb;
use akd::auditor::audit_verify;
use serde_json::json;
use std::sync::atomic::Ordering;

pub fn run(ctx: &Ctx) -> i32 {
    let mon = Mon::new();
    let n = ctx.tier.pick(48, 240);
    par_cases(ctx, &mon, "hist", n, |cc, rng, l| {
        let mut case = HistCase::random(rng, ctx.tier.pick(6, 10), 8, 3, cc.idx % 4 == 0);
        case.hist.batches.truncate(ctx.tier.pick(6, 10));
        case.cache = CacheOpt::None;
        with_cfg!(case.cfg, TC, { block_on(run_case::<TC>(ctx, cc, &case, rng, l)) })
    });
    finish(
        ctx,
        &mon,
        Spec::new(
            "fault_enumeration",
            "for every effective publish of generated histories the commit batch is captured; with r non-epoch records: ALL 2^r subsets when r <= 9, otherwise every prefix of 8 random permutations + 150 random subsets; each subset is applied (epoch record withheld) to a deep copy of the pre-commit database and a fresh ReadOnlyDirectory (uncached and cached) must report the previous (epoch, hash), serve verifying lookups + complete histories of every label equal to the model at the previous epoch, verify audit(0,E) and audit(E-1,E), and not serve labels first published in the unfinished epoch; with the epoch record added the new epoch is served completely. distinct = (publish shape, kinds of records present/absent in the subset); non-trivial = subset is neither empty nor complete",
        )
        .assume("each record is written atomically and the epoch record is written last (the storage contract the code documents); torn records are out of scope")
        .need("crash_states", ctx.tier.pick(3000, 30000))
        .need("publishes_enumerated", ctx.tier.pick(100, 700))
        .need("complete_commits_checked", ctx.tier.pick(100, 700)),
    )
}

fn kind_of(r: &DbRecord, new_epoch: u64) -> &'static str {
    match r {
        DbRecord::Azks(_) => "azks",
        DbRecord::ValueState(_) => "value-state",
        DbRecord::TreeNode(t) => {
            if t.previous_node.is_none() {
                if t.latest_node.node_type == TreeNodeType::Leaf {
                    "new-leaf"
                } else {
                    "new-interior"
                }
            } else if t.latest_node.last_epoch == new_epoch {
                if t.label.label_len == 0 {
                    "updated-root"
                } else {
                    "updated-node"
                }
            } else {
                "re-parented-node"
            }
        }
    }
}

/// Everything a reader must show at `epoch`; returns the first divergent observable
async fn check_reader<TC: Configuration>(db: &AsyncInMemoryDatabase, cache: CacheOpt, w: &World<TC>, model: &Model, epoch: u64, l: &mut Local) -> Result<(), String> {
    let xdb = XDb::over(db.clone());
    let ro = RoDir::<TC>::new(cache.manager(xdb), w.vrf.clone(), AzksParallelismConfig::disabled())
        .await
        .map_err(|e| format!("reader-cannot-open: {e}"))?;
    let want = EpochHash(epoch, w.published[epoch as usize]);
    let eh = ro.get_epoch_hash().await.map_err(|e| format!("epoch-hash-unreadable: {e}"))?;
    if eh != want {
        return Err(format!("wrong-epoch-hash: reader reports ({}, {}) instead of ({}, {})", eh.0, hx(&eh.1), want.0, hx(&want.1)));
    }
    for label in model.labels() {
        match model.latest(&label, epoch) {
            None => {
                if ro.lookup(AkdLabel(label.clone())).await.is_ok() {
                    return Err(format!("unfinished-value-visible: label {} (first published later) is served", hx(&label)));
                }
                l.count("later_labels_invisible", 1);
            }
            Some(wantv) => {
                let (p, eh) = ro.lookup(AkdLabel(label.clone())).await.map_err(|e| format!("lookup-fails: {} {e}", hx(&label)))?;
                if eh != want {
                    return Err("lookup-wrong-epoch-hash".into());
                }
                match akd::client::lookup_verify::<TC>(&w.pk, eh.1, eh.0, AkdLabel(label.clone()), p) {
                    Ok(vr) if ver_matches(wantv, &vr) => {}
                    Ok(vr) => return Err(format!("lookup-wrong-result: {} vs model {}", vr_json(&vr), ver_json(wantv))),
                    Err(e) => return Err(format!("lookup-does-not-verify: {} {e}", hx(&label))),
                }
                let (p, eh) = ro
                    .key_history(&AkdLabel(label.clone()), HistoryParams::Complete)
                    .await
                    .map_err(|e| format!("history-fails: {} {e}", hx(&label)))?;
                if eh != want {
                    return Err("history-wrong-epoch-hash".into());
                }
                let wanth = model.history(&label, epoch);
                match akd::client::key_history_verify::<TC>(&w.pk, eh.1, eh.0, AkdLabel(label.clone()), p, HistoryVerificationParams::default()) {
                    Ok(rs) if rs.len() == wanth.len() && rs.iter().zip(wanth.iter()).all(|(r, v)| ver_matches(v, r)) => {}
                    Ok(_) => return Err(format!("history-wrong-result: {}", hx(&label))),
                    Err(e) => return Err(format!("history-does-not-verify: {} {e}", hx(&label))),
                }
                // most-recent-N histories as well (the N newest states as of the reader's epoch)
                for n in [1usize, 2] {
                    let hp = HistoryParams::MostRecent(n);
                    let (p, eh) = ro.key_history(&AkdLabel(label.clone()), hp).await.map_err(|e| format!("history-fails: {} {hp:?} {e}", hx(&label)))?;
                    let wantn: Vec<_> = wanth.iter().take(n).cloned().collect();
                    match akd::client::key_history_verify::<TC>(&w.pk, eh.1, eh.0, AkdLabel(label.clone()), p, HistoryVerificationParams::Default { history_params: hp }) {
                        Ok(rs) if eh == want && rs.len() == wantn.len() && rs.iter().zip(wantn.iter()).all(|(r, v)| ver_matches(v, r)) => {}
                        Ok(_) => return Err(format!("history-wrong-result: {} {hp:?}", hx(&label))),
                        Err(e) => return Err(format!("history-does-not-verify: {} {hp:?} {e}", hx(&label))),
                    }
                }
                l.count("proofs_verified_at_crash_points", 4);
            }
        }
    }
    if epoch >= 1 {
        for (s, e) in [(0, epoch), (epoch - 1, epoch)] {
            let p = ro.audit(s, e).await.map_err(|e2| format!("audit-fails: ({s},{e}) {e2}"))?;
            audit_verify::<TC>(w.published[s as usize..=e as usize].to_vec(), p)
                .await
                .map_err(|e2| format!("audit-does-not-verify: ({s},{e}) {e2}"))?;
        }
    }
    // requests beyond the reader's epoch are refused
    if ro.audit(epoch, epoch + 1).await.is_ok() {
        return Err("audit-of-unfinished-epoch-served".into());
    }
    Ok(())
}

async fn run_case<TC: Configuration>(ctx: &Ctx, cc: &CaseCtx, case: &HistCase, rng: &mut Rng, l: &mut Local) {
    let Ok(mut w) = World::<TC>::new(CacheOpt::None, case.par, KeyVrf::hard_coded()).await else {
        l.inconclusive("Directory::new failed");
        return;
    };
    w.db.ctl.capture_commits.store(true, Ordering::SeqCst);
    for (bi, batch) in case.hist.batches.iter().enumerate() {
        let pre_db = deep_copy(&w.db.inner).await;
        let pre_model = w.model.clone();
        let _ = w.db.ctl.take_commits();
        let (applied, res) = w.publish(batch).await;
        let Applied::Epoch(new_epoch, changed) = applied else { continue };
        if let Err(e) = res {
            l.inconclusive(format!("publish failed in C11: {e}"));
            return;
        }
        let commits = w.db.ctl.take_commits();
        if commits.len() != 1 {
            l.inconclusive(format!("expected exactly one commit batch, saw {}", commits.len()));
            return;
        }
        let records = &commits[0];
        // the documented contract: the epoch record is last
        if !matches!(records.last(), Some(DbRecord::Azks(_))) || records.iter().filter(|r| matches!(r, DbRecord::Azks(_))).count() != 1 {
            l.violation("C11:epoch-record-not-last", "the commit batch does not end with exactly one epoch record", json!({"batch": batch_json(batch)}));
            return;
        }
        let e = new_epoch - 1;
        let others: Vec<DbRecord> = records[..records.len() - 1].to_vec();
        let azks_rec = records.last().unwrap().clone();
        let r = others.len();
        l.count("publishes_enumerated", 1);
        l.max("max_records_in_commit", r as u64);
        let n_new = changed.iter().filter(|c| pre_model.latest(c, e).is_none()).count();
        let shape = match (n_new, changed.len() - n_new) {
            (_, 0) => "create",
            (0, _) => "update",
            _ => "mixed",
        };
        // subsets as bit masks over `others`
        let mut subsets: Vec<Vec<bool>> = vec![];
        let max_all = ctx.tier.pick(8, 9);
        if r <= max_all {
            for m in 0u32..(1u32 << r) {
                subsets.push((0..r).map(|i| m & (1 << i) != 0).collect());
            }
            l.count("publishes_with_all_subsets", 1);
        } else {
            let n_perm = ctx.tier.pick(3, 8);
            for _ in 0..n_perm {
                let mut order: Vec<usize> = (0..r).collect();
                rng.shuffle(&mut order);
                for plen in 0..=r {
                    let mut m = vec![false; r];
                    for &i in &order[..plen] {
                        m[i] = true;
                    }
                    subsets.push(m);
                }
            }
            for _ in 0..ctx.tier.pick(40, 150) {
                subsets.push((0..r).map(|_| rng.chance(1, 2)).collect());
            }
        }
        for mask in &subsets {
            l.eval(1);
            l.count("crash_states", 1);
            let db2 = deep_copy(&pre_db).await;
            let chosen: Vec<DbRecord> = others.iter().zip(mask.iter()).filter(|(_, m)| **m).map(|(r, _)| r.clone()).collect();
            let n_chosen = chosen.len();
            let mut present: Vec<&str> = chosen.iter().map(|r| kind_of(r, new_epoch)).collect();
            present.sort();
            present.dedup();
            let mut absent: Vec<&str> = others.iter().zip(mask.iter()).filter(|(_, m)| !**m).map(|(r, _)| kind_of(r, new_epoch)).collect();
            absent.sort();
            absent.dedup();
            if !chosen.is_empty() {
                db2.batch_set(chosen, DbSetState::TransactionCommit).await.expect("apply subset");
            }
            l.case(format!("{shape}/+{present:?}/-{absent:?}").as_bytes(), n_chosen != 0 && n_chosen != r);
            for cache in [CacheOpt::None, CacheOpt::Default] {
                if let Err(why) = check_reader::<TC>(&db2, cache, &w, &pre_model, e, l).await {
                    let observable = why.split(':').next().unwrap_or("?").to_string();
                    l.violation(
                        format!("C11:{observable}/{shape}"),
                        format!("with {n_chosen} of {r} records of the commit of epoch {new_epoch} written (epoch record not yet), a fresh {} reader diverges from epoch {e}: {why}", cache.name()),
                        json!({"cfg": case.cfg.name(), "reader_cache": cache.name(), "previous_epoch": e, "records_present": present, "records_absent": absent,
                               "mask": mask, "record_list": others.iter().map(|r| kind_of(r, new_epoch)).collect::<Vec<_>>(),
                               "batch": batch_json(batch), "history": history_json(&case.hist.batches[..=bi])}),
                    );
                    return;
                }
            }
        }
        // the complete commit incl. the epoch record: the new epoch is served completely
        let db3 = deep_copy(&pre_db).await;
        let mut full = others.clone();
        full.push(azks_rec);
        db3.batch_set(full, DbSetState::TransactionCommit).await.expect("apply all");
        l.eval(1);
        l.count("complete_commits_checked", 1);
        for cache in [CacheOpt::None, CacheOpt::Default] {
            if let Err(why) = check_reader::<TC>(&db3, cache, &w, &w.model, new_epoch, l).await {
                l.violation(
                    format!("C11:after-epoch-record/{}", why.split(':').next().unwrap_or("?")),
                    format!("after the epoch record of epoch {new_epoch} is written a fresh reader does not serve the new epoch completely: {why}"),
                    json!({"cfg": case.cfg.name(), "batch": batch_json(batch), "history": history_json(&case.hist.batches[..=bi])}),
                );
                return;
            }
        }
    }
    l.sample(json!({"case": cc.id, "cfg": case.cfg.name(), "epochs": w.model.epoch, "history": history_json(&case.hist.batches[..case.hist.batches.len().min(3)])}));
}
