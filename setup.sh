#!/bin/bash
# Offline build of the harness (and of akd from /repo's working tree) so later checks are incremental.
set -e
cd "$(dirname "$(readlink -f "$0")")/harness"
export CARGO_NET_OFFLINE=true
[ -f Cargo.lock ] || cp /repo/Cargo.lock .
cargo build --release --bin vcheck
# second feature set for C14 (no greedy_lookup_preload / preload_history / parallel_vrf)
cargo build --release --no-default-features --features cfg_min --target-dir target-min --bin vcheck
