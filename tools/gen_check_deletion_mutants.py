#!/usr/bin/env python3
"""tools/gen_check_deletion_mutants.py <repo> <out-dir>

Generates one patch per REJECTION SITE of the client-side verifiers and the auditor: every
`return Err(...)` statement and every `<call>(...)?;` statement in
  akd_core/src/verify/{base,lookup,history}.rs   and   akd/src/auditor.rs
is disabled in turn (`if false { return Err(..); }` / `let _ = <call>(...);`).  Each patch is a
"verifier forgets one check" mutant; tools/run_auto_mutants.sh applies them one at a time to a scratch
copy and runs the soundness monitors (C05 C06 C07 C08 C09 C18 C19 C20): a mutant that no monitor notices
marks a verifier check the adversarial families never make decisive.
Writes <out-dir>/<file>-L<line>.patch and <out-dir>/LIST.
"""
import os, re, subprocess, sys

repo, out = sys.argv[1], sys.argv[2]
os.makedirs(out, exist_ok=True)
FILES = ["akd_core/src/verify/base.rs", "akd_core/src/verify/lookup.rs", "akd_core/src/verify/history.rs", "akd/src/auditor.rs"]


def stmt_end(lines, i, col):
    """index of the line on which the statement starting at (i, col) ends (first ';' at paren depth 0)"""
    depth = 0
    j, c = i, col
    in_str = False
    while j < len(lines):
        line = lines[j]
        while c < len(line):
            ch = line[c]
            if in_str:
                if ch == "\\":
                    c += 1
                elif ch == '"':
                    in_str = False
            else:
                if ch == '"':
                    in_str = True
                elif ch in "([{":
                    depth += 1
                elif ch in ")]}":
                    depth -= 1
                elif ch == ";" and depth == 0:
                    return j
            c += 1
        j += 1
        c = 0
    return None


def expr_end(lines, i, col):
    """(line, col) just after the call expression that starts at (i, col): the position where the paren
    depth returns to 0 after having been positive"""
    depth, seen, in_str = 0, False, False
    j, c = i, col
    while j < len(lines):
        line = lines[j]
        while c < len(line):
            ch = line[c]
            if in_str:
                if ch == "\\":
                    c += 1
                elif ch == '"':
                    in_str = False
            else:
                if ch == '"':
                    in_str = True
                elif ch == "(":
                    depth += 1
                    seen = True
                elif ch == ")":
                    depth -= 1
                    if seen and depth == 0:
                        return j, c + 1
            c += 1
        j += 1
        c = 0
    return None


listing = []
for f in FILES:
    path = os.path.join(repo, f)
    src = open(path).read().split("\n")
    # stop at the test module
    limit = next((k for k, l in enumerate(src) if re.match(r"\s*#\[cfg\(test\)\]", l)), len(src))
    sites = []
    for i, line in enumerate(src[:limit]):
        if line.strip().startswith("//"):
            continue
        m = re.match(r"^(\s*)return Err\(", line)
        if m:
            ee = expr_end(src, i, len(m.group(1)))
            if ee is not None:
                sites.append(("ret", i, ee))
            continue
        # tail expression `Err(VerificationError::...)` of an if/else: the check "passes" instead
        m = re.match(r"^(\s*)Err\((VerificationError|AkdError)::", line)
        if m:
            ee = expr_end(src, i, len(m.group(1)))
            if ee is not None:
                sites.append(("tail", i, ee))
            continue
        # a call statement whose value is discarded:   foo::<T>(...)?;   possibly spanning lines
        m = re.match(r"^(\s*)([A-Za-z_][A-Za-z0-9_:<>, ]*)\($", line) or re.match(r"^(\s*)([A-Za-z_][A-Za-z0-9_:<>, ]*)\(.*\)\?;\s*$", line)
        if m and not line.strip().startswith(("let ", "if ", "match ", "for ", "while ", "return ", "Ok(", "Err(", "Some(")):
            e = stmt_end(src, i, len(m.group(1)))
            if e is not None and src[e].rstrip().endswith("?;"):
                sites.append(("call", i, e))
    for kind, i, e in sites:
        mut = list(src)
        ind = re.match(r"^(\s*)", mut[i]).group(1)
        if kind == "ret":
            el, ec = e
            rest = mut[el][ec:]
            semi = ";" if rest.lstrip().startswith(";") else ""
            if semi:
                rest = rest.lstrip()[1:]
            mut[el] = mut[el][:ec] + semi + " }" + rest
            mut[i] = ind + "if false { " + mut[i].lstrip()
        elif kind == "tail":
            el, ec = e
            rest = mut[el][ec:]
            del mut[i + 1:el + 1]
            mut[i] = ind + "Ok(())" + rest
        else:
            mut[i] = ind + "let _ = " + mut[i].lstrip()
            mut[e] = re.sub(r"\?;\s*$", ";", mut[e])
        tmp = path + ".mut"
        open(tmp, "w").write("\n".join(mut))
        diff = subprocess.run(["diff", "-u", "--label", "a/" + f, "--label", "b/" + f, path, tmp], capture_output=True, text=True).stdout
        os.remove(tmp)
        if not diff.strip():
            continue
        name = "%s-L%d.patch" % (f.replace("/", "_").replace(".rs", ""), i + 1)
        open(os.path.join(out, name), "w").write(diff)
        what = src[i].strip()[:70]
        listing.append("%s\t%s:%d\t%s\t%s" % (name, f, i + 1, kind, what))
open(os.path.join(out, "LIST"), "w").write("\n".join(listing) + "\n")
print(len(listing), "mutants written to", out)
