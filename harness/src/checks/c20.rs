//! C20 — tombstoning old values never changes what the directory has committed to.
//! Before/after transcripts on the same instance, and a twin that was never tombstoned for the
//! publishes that follow.

use crate::checks::c13::Reader;
use crate::checks::histcase::HistCase;
use crate::common::*;
use crate::gen::history_json;
use crate::model::{Applied, Batch, Model, Ver};
use crate::mon::*;
use crate::rng::Rng;
use crate::transcript::{self, Line, Opts, Transcript};
use crate::with_cfg;
use crate::world::*;
use crate::xdb::XDb;
use serde_json::json;

pub fn run(ctx: &Ctx) -> i32 {
    let mon = Mon::new();
    let n = ctx.tier.pick(150, 600);
    par_cases(ctx, &mon, "hist", n, |cc, rng, l| {
        let mut case = HistCase::random(rng, ctx.tier.pick(10, 16), 6, 4, cc.idx % 3 == 0);
        case.par = AzksParallelismConfig::disabled();
        case.cache = if rng.chance(1, 2) { CacheOpt::None } else { CacheOpt::Default };
        with_cfg!(case.cfg, TC, { block_on(run_case::<TC>(ctx, cc, &case, rng, l)) })
    });
    finish(
        ctx,
        &mon,
        Spec::new(
            "exploration",
            "generated histories; for 1-3 labels x EVERY cut-off epoch from 0 to (latest update epoch - 1): a full transcript (epoch hash; per label lookup, histories for Complete/MostRecent(1)/MostRecent(3) under Default and AllowMissingValues; audits; invalid requests) is taken on the same instance immediately before and after tombstone_value_states; it must be identical except that the label's histories show empty values for tombstoned entries under AllowMissingValues (same versions and epochs, later values intact) and are rejected under Default exactly when they contain a tombstoned entry (an entry whose stored value actually changed). Then 1-3 further publishes (update the label, re-submit, touch others) on the tombstoned instance and on a never-tombstoned twin must give transcripts that differ in the same lines only. Cached and uncached. distinct = (versions total, versions tombstoned, cache); non-trivial = at least one value actually tombstoned",
        )
        .need("tombstone_runs", ctx.tier.pick(300, 1500))
        .need("runs_with_tombstoned_values", ctx.tier.pick(150, 700))
        .need("transcript_lines_compared", ctx.tier.pick(20_000, 100_000)),
    )
}

fn vr_s(v: &Ver, blank: bool) -> String {
    format!("(v{},e{},{})", v.version, v.epoch, if blank { String::new() } else { hex::encode(&v.value) })
}

/// the lines the label's histories must show after tombstoning up to `cutoff`
fn expected_history_lines(model: &Model, label: &[u8], cur: u64, cutoff: u64) -> Vec<Line> {
    let full = model.history(label, cur);
    let ls = hxu(label);
    let mut out = vec![];
    for hp in [HistoryParams::Complete, HistoryParams::MostRecent(1), HistoryParams::MostRecent(3)] {
        let shown: Vec<Ver> = match hp {
            HistoryParams::Complete => full.clone(),
            HistoryParams::MostRecent(n) => full.iter().take(n).cloned().collect(),
        };
        let tomb = |v: &Ver| v.epoch <= cutoff && !v.value.is_empty();
        let any = shown.iter().any(tomb);
        out.push(Line {
            key: format!("history {ls} {hp:?} default"),
            val: if any { "REJECTED".into() } else { format!("@{cur} [{}]", shown.iter().map(|v| vr_s(v, false)).collect::<Vec<_>>().join(",")) },
        });
        out.push(Line {
            key: format!("history {ls} {hp:?} allow-missing"),
            val: format!("@{cur} [{}]", shown.iter().map(|v| vr_s(v, tomb(v))).collect::<Vec<_>>().join(",")),
        });
    }
    out
}

/// `after` must equal `before` except for the listed replacement lines
fn compare(before: &Transcript, after: &Transcript, replace: &[Line]) -> Result<u64, (String, String, String)> {
    if before.len() != after.len() {
        return Err(("<length>".into(), before.len().to_string(), after.len().to_string()));
    }
    let mut n = 0;
    for (b, a) in before.iter().zip(after.iter()) {
        n += 1;
        if b.key != a.key {
            return Err((b.key.clone(), "<same key>".into(), a.key.clone()));
        }
        let want = replace.iter().find(|r| r.key == b.key).map(|r| &r.val).unwrap_or(&b.val);
        if *want != a.val {
            return Err((b.key.clone(), want.clone(), a.val.clone()));
        }
    }
    Ok(n)
}

async fn open<TC: Configuration>(db: &AsyncInMemoryDatabase, cache: CacheOpt) -> (StorageManager<XDb>, Dir<TC>) {
    let mgr = cache.manager(XDb::over(db.clone()));
    let dir = Dir::<TC>::new(mgr.clone(), KeyVrf::hard_coded(), AzksParallelismConfig::disabled()).await.expect("open");
    (mgr, dir)
}

async fn run_case<TC: Configuration>(ctx: &Ctx, cc: &CaseCtx, case: &HistCase, rng: &mut Rng, l: &mut Local) {
    let Ok(mut w) = World::<TC>::new(CacheOpt::None, case.par, KeyVrf::hard_coded()).await else {
        l.inconclusive("Directory::new failed");
        return;
    };
    for b in &case.hist.batches {
        let (a, r) = w.publish(b).await;
        if matches!(a, Applied::Epoch(..)) && r.is_err() {
            l.inconclusive("publish failed");
            return;
        }
    }
    let cur = w.model.epoch;
    if cur == 0 {
        return;
    }
    let labels = w.model.labels();
    let mut cands: Vec<Vec<u8>> = labels.iter().filter(|x| w.model.history(x, cur).len() >= 2).cloned().collect();
    rng.shuffle(&mut cands);
    cands.truncate(ctx.tier.pick(2, 3));
    let hist = history_json(&case.hist.batches);
    for label in &cands {
        let full = w.model.history(label, cur);
        let latest_epoch = full[0].epoch;
        for cutoff in 0..latest_epoch {
            l.eval(1);
            l.count("tombstone_runs", 1);
            let n_tomb = full.iter().filter(|v| v.epoch <= cutoff && !v.value.is_empty()).count();
            if n_tomb > 0 {
                l.count("runs_with_tombstoned_values", 1);
            }
            l.case(format!("{}/{}/{}", full.len().min(9), n_tomb.min(9), case.cache.name()).as_bytes(), n_tomb > 0);
            let detail = |what: (String, String, String)| {
                json!({"cfg": case.cfg.name(), "cache": case.cache.name(), "label": hx(label), "cutoff_epoch": cutoff, "label_versions": full.iter().map(ver_json).collect::<Vec<_>>(),
                       "line": what.0, "expected": what.1, "got": what.2, "history": hist})
            };
            // the tombstoned instance and its never-tombstoned twin
            let db_t = deep_copy(&w.db.inner).await;
            let db_twin = deep_copy(&w.db.inner).await;
            let (mgr_t, dir_t) = open::<TC>(&db_t, case.cache).await;
            let (_mgr_w, dir_w) = open::<TC>(&db_twin, case.cache).await;
            let o = Opts { allow_missing: true, published: w.published.clone() };
            let rt = Reader::W(dir_t.clone());
            let before = transcript::take::<TC>(&rt, &w.pk, &labels, &o).await;
            // a third of the runs tombstone while a transaction is OPEN on the shared manager - the state a
            // publish is in between begin_transaction and its commit (the tombstone records then sit in the
            // transaction log, and every read of the directory merges log and database)
            let in_flight = rng.chance(1, 3);
            if in_flight && !mgr_t.begin_transaction() {
                l.inconclusive("could not open a transaction on a fresh manager");
                return;
            }
            if let Err(e) = mgr_t.tombstone_value_states(&AkdLabel(label.clone()), cutoff).await {
                l.violation("C20:tombstone-failed", format!("tombstone_value_states failed: {e:?}"), detail(("-".into(), "-".into(), "-".into())));
                return;
            }
            let repl = expected_history_lines(&w.model, label, cur, cutoff);
            if in_flight {
                l.count("tombstoned_inside_open_transaction", 1);
                let mid = transcript::take::<TC>(&rt, &w.pk, &labels, &o).await;
                match compare(&before, &mid, &repl) {
                    Ok(n) => l.count("transcript_lines_compared", n),
                    Err(what) => {
                        let class = if what.0.starts_with("history") && what.0.contains(&hxu(label)) { "own-history" } else { what.0.split(' ').next().unwrap_or("?") }.to_string();
                        l.violation(
                            format!("C20:during-open-transaction/{class}"),
                            format!("tombstoning {} up to epoch {cutoff} while a transaction is open changed '{}': expected '{}', got '{}'", hx(label), what.0, what.1, what.2),
                            detail(what),
                        );
                        return;
                    }
                }
                // the transaction commits (epoch record last, unchanged here)
                let committed = match mgr_t.get::<Azks>(&akd::append_only_zks::DEFAULT_AZKS_KEY).await {
                    Ok(rec) => mgr_t.set(rec).await.is_ok() && mgr_t.commit_transaction().await.is_ok(),
                    Err(_) => false,
                };
                if !committed {
                    l.violation("C20:commit-after-tombstone-failed", "the transaction holding the tombstone records could not be committed", detail(("-".into(), "-".into(), "-".into())));
                    return;
                }
            }
            let after = transcript::take::<TC>(&rt, &w.pk, &labels, &o).await;
            match compare(&before, &after, &repl) {
                Ok(n) => l.count("transcript_lines_compared", n),
                Err(what) => {
                    let class = if what.0.starts_with("history") && what.0.contains(&hxu(label)) { "own-history" } else { what.0.split(' ').next().unwrap_or("?") }.to_string();
                    l.violation(
                        format!("C20:after-tombstone/{class}"),
                        format!("tombstoning {} up to epoch {cutoff} changed '{}': expected '{}', got '{}'", hx(label), what.0, what.1, what.2),
                        detail(what),
                    );
                    return;
                }
            }
            // a fresh instance over the tombstoned storage answers the same
            let (_m2, dir_fresh) = open::<TC>(&db_t, CacheOpt::None).await;
            let fresh = transcript::take::<TC>(&Reader::W(dir_fresh), &w.pk, &labels, &o).await;
            if let Some(d) = transcript::first_diff(&after, &fresh) {
                l.violation("C20:fresh-instance-differs", format!("a fresh instance over the tombstoned storage answers '{}' differently", d.0), detail(d));
                return;
            }
            // ---- further publishes on both
            let mut model = w.model.clone();
            let mut published = w.published.clone();
            let n_more = rng.range(1, 3);
            let mut more: Vec<Batch> = vec![];
            for i in 0..n_more {
                let mut b: Batch = vec![];
                match i {
                    0 => {
                        b.push((label.clone(), format!("after-tomb-{}", cc.idx).into_bytes()));
                    }
                    1 => {
                        // re-submit the current value of the label + touch another label
                        let curv = model.latest(label, model.epoch).unwrap().value.clone();
                        b.push((label.clone(), curv));
                        if let Some(o2) = labels.iter().find(|x| *x != label) {
                            b.push((o2.clone(), b"touched".to_vec()));
                        }
                    }
                    _ => {
                        b.push((format!("brand-new-{}", cc.idx).into_bytes(), b"nv".to_vec()));
                    }
                }
                more.push(b);
            }
            for b in &more {
                let rt_res = dir_t.publish(akd_batch(b)).await;
                let rw_res = dir_w.publish(akd_batch(b)).await;
                let applied = model.apply(b);
                match (&rt_res, &rw_res) {
                    (Ok(a), Ok(c)) if a == c => {
                        if let Applied::Epoch(e, _) = applied {
                            if a.0 == e {
                                published.push(a.1);
                            }
                        }
                    }
                    _ => {
                        l.violation(
                            "C20:later-publish-diverges",
                            format!("a publish after tombstoning returned {:?} but the never-tombstoned twin {:?}", rt_res.as_ref().map(|e| e.0).map_err(|e| e.to_string()), rw_res.as_ref().map(|e| e.0).map_err(|e| e.to_string())),
                            detail(("publish".into(), "-".into(), "-".into())),
                        );
                        return;
                    }
                }
            }
            let mut labels2 = labels.clone();
            for b in &more {
                for (lb, _) in b {
                    if !labels2.contains(lb) {
                        labels2.push(lb.clone());
                    }
                }
            }
            let o2 = Opts { allow_missing: true, published: published.clone() };
            let t_after = transcript::take::<TC>(&Reader::W(dir_t.clone()), &w.pk, &labels2, &o2).await;
            let t_twin = transcript::take::<TC>(&Reader::W(dir_w.clone()), &w.pk, &labels2, &o2).await;
            let repl2 = expected_history_lines(&model, label, model.epoch, cutoff);
            match compare(&t_twin, &t_after, &repl2) {
                Ok(n) => l.count("transcript_lines_compared", n),
                Err(what) => {
                    l.violation(
                        format!("C20:after-later-publishes/{}", what.0.split(' ').next().unwrap_or("?")),
                        format!("after tombstoning and {n_more} further publishes '{}' is '{}', the never-tombstoned twin implies '{}'", what.0, what.2, what.1),
                        detail(what),
                    );
                    return;
                }
            }
            // the twin itself agrees with the model (sanity of the comparison)
            let want_latest = model.latest(label, model.epoch).unwrap();
            let key = format!("lookup {}", hxu(label));
            let got = t_twin.iter().find(|x| x.key == key).map(|x| x.val.clone()).unwrap_or_default();
            if got != format!("@{} {}", model.epoch, vr_s(want_latest, false)) {
                l.violation("C20:twin-differs-from-model", format!("twin lookup line '{got}' differs from the model"), detail((key, "-".into(), got.clone())));
                return;
            }
        }
    }
    if cc.idx < 2 {
        l.sample(json!({"case": cc.id, "cfg": case.cfg.name(), "cache": case.cache.name(), "epochs": cur, "labels_tombstoned": cands.iter().map(|x| hx(x)).collect::<Vec<_>>()}));
    }
}
