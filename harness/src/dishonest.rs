//! A dishonest *server*: re-implements publish on top of public pieces of akd
//! (`Azks::batch_insert_nodes`, `StorageManager`, VRF labels, configuration hashing) so that the
//! tree can be corrupted on purpose.  (akd's own `publish_malicious_update` is `#[cfg(test)]`.)

use crate::common::*;
use crate::model::Batch;
use std::collections::HashMap;

#[derive(Clone, Debug, Default)]
pub struct Corruption {
    /// do not insert the stale leaf of these labels when they are updated in this publish
    pub omit_stale_for: Vec<Vec<u8>>,
    /// additionally insert stale(label, version) leaves (late retirement)
    pub add_stale: Vec<(Vec<u8>, u64)>,
    /// additionally insert fresh(label, version) leaves with the given value (no value state written)
    pub add_fresh: Vec<(Vec<u8>, u64, Vec<u8>)>,
    /// write value states with this version jump instead of +1 (version skipping): label -> new version
    pub force_version: HashMap<Vec<u8>, u64>,
    /// additionally insert these elements verbatim (arbitrary node labels, any bit length)
    pub raw: Vec<AzksElement>,
    /// do not insert the fresh leaf of these labels (their value state is still written)
    pub omit_fresh_for: Vec<Vec<u8>>,
}

/// Publish `updates` like Directory::publish does, applying `c`.  Returns the new epoch hash.
pub async fn publish<TC: Configuration, D: Database + 'static>(
    mgr: &StorageManager<D>,
    vrf: &KeyVrf,
    updates: &Batch,
    c: &Corruption,
) -> Result<EpochHash, AkdError> {
    let mut azks = match mgr.get::<Azks>(&akd::append_only_zks::DEFAULT_AZKS_KEY).await? {
        DbRecord::Azks(a) => a,
        _ => return Err(AkdError::Storage(StorageError::NotFound("azks".into()))),
    };
    let cur = azks.latest_epoch;
    let next = cur + 1;
    let keys: Vec<AkdLabel> = updates.iter().map(|(l, _)| AkdLabel(l.clone())).collect();
    let versions = mgr.get_user_state_versions(&keys, ValueStateRetrievalFlag::LeqEpoch(cur)).await?;
    let ck = TC::hash(&vrf.0);
    let mut set: Vec<AzksElement> = vec![];
    let mut states: Vec<DbRecord> = vec![];
    for (l, v) in updates {
        let al = AkdLabel(l.clone());
        let av = AkdValue(v.clone());
        let (prev, newv) = match versions.get(&al) {
            None => (None, 1u64),
            Some((pv, old)) => {
                if *old == av {
                    continue;
                }
                (Some(*pv), *pv + 1)
            }
        };
        let newv = c.force_version.get(l).copied().unwrap_or(newv);
        if let Some(pv) = prev {
            if !c.omit_stale_for.contains(l) {
                let sl = vrf.get_node_label::<TC>(&al, VersionFreshness::Stale, pv).await?;
                set.push(AzksElement { label: sl, value: TC::stale_azks_value() });
            }
        }
        let fl = vrf.get_node_label::<TC>(&al, VersionFreshness::Fresh, newv).await?;
        if !c.omit_fresh_for.contains(l) {
            set.push(AzksElement { label: fl, value: TC::compute_fresh_azks_value(&ck, &fl, newv, &av) });
        }
        states.push(DbRecord::ValueState(ValueState { value: av, version: newv, label: fl, epoch: next, username: al }));
    }
    for (l, ver) in &c.add_stale {
        let sl = vrf.get_node_label::<TC>(&AkdLabel(l.clone()), VersionFreshness::Stale, *ver).await?;
        set.push(AzksElement { label: sl, value: TC::stale_azks_value() });
    }
    for (l, ver, val) in &c.add_fresh {
        let fl = vrf.get_node_label::<TC>(&AkdLabel(l.clone()), VersionFreshness::Fresh, *ver).await?;
        set.push(AzksElement { label: fl, value: TC::compute_fresh_azks_value(&ck, &fl, *ver, &AkdValue(val.clone())) });
    }
    set.extend(c.raw.iter().cloned());
    if set.is_empty() {
        let root = azks.get_root_hash::<TC, _>(mgr).await?;
        return Ok(EpochHash(cur, root));
    }
    if !mgr.begin_transaction() {
        return Err(AkdError::Storage(StorageError::Transaction("active".into())));
    }
    if let Err(e) = azks.batch_insert_nodes::<TC, _>(mgr, set, InsertMode::Directory, AzksParallelismConfig::disabled()).await {
        let _ = mgr.rollback_transaction();
        return Err(e);
    }
    let mut recs = vec![DbRecord::Azks(azks.clone())];
    recs.extend(states);
    mgr.batch_set(recs).await?;
    mgr.commit_transaction().await.map_err(AkdError::Storage)?;
    let root = azks.get_root_hash::<TC, _>(mgr).await?;
    Ok(EpochHash(next, root))
}
