//! Reference model of the directory, written from the *specified* semantics:
//!  - a batch that repeats a label is rejected without effect;
//!  - an entry whose value equals the label's current value is skipped;
//!  - a batch with no effective entry changes nothing (no new epoch);
//!  - otherwise epoch += 1, each effective entry gets version = previous version + 1 (1 when new).

use std::collections::{BTreeMap, HashSet};

#[derive(Clone, Debug, PartialEq, Eq)]
pub struct Ver {
    pub version: u64,
    pub value: Vec<u8>,
    pub epoch: u64,
}

#[derive(Clone, Debug, PartialEq, Eq)]
pub enum Applied {
    Rejected,
    NoOp,
    /// new epoch number, labels that changed
    Epoch(u64, Vec<Vec<u8>>),
}

/// One leaf the tree must contain at some epoch.
#[derive(Clone, Debug, PartialEq, Eq, PartialOrd, Ord)]
pub struct LeafSpec {
    pub label: Vec<u8>,
    pub fresh: bool,
    pub version: u64,
    /// the epoch mixed into the leaf hash
    pub epoch: u64,
    /// plaintext value for fresh leaves (None for stale leaves)
    pub value: Option<Vec<u8>>,
}

#[derive(Clone, Debug, Default)]
pub struct Model {
    pub epoch: u64,
    pub users: BTreeMap<Vec<u8>, Vec<Ver>>,
}

pub type Batch = Vec<(Vec<u8>, Vec<u8>)>;

impl Model {
    pub fn new() -> Self {
        Self::default()
    }

    pub fn apply(&mut self, batch: &Batch) -> Applied {
        let mut seen = HashSet::new();
        for (l, _) in batch {
            if !seen.insert(l.clone()) {
                return Applied::Rejected;
            }
        }
        let mut changed = vec![];
        let next = self.epoch + 1;
        for (l, v) in batch {
            let hist = self.users.get(l);
            let cur = hist.and_then(|h| h.last());
            match cur {
                Some(c) if c.value == *v => {}
                _ => changed.push((l.clone(), v.clone(), cur.map(|c| c.version).unwrap_or(0) + 1)),
            }
        }
        if changed.is_empty() {
            return Applied::NoOp;
        }
        let mut labels = vec![];
        for (l, v, ver) in changed {
            self.users.entry(l.clone()).or_default().push(Ver {
                version: ver,
                value: v,
                epoch: next,
            });
            labels.push(l);
        }
        self.epoch = next;
        Applied::Epoch(next, labels)
    }

    /// latest version of `label` as of `epoch`
    pub fn latest(&self, label: &[u8], epoch: u64) -> Option<&Ver> {
        self.users.get(label).and_then(|h| h.iter().rev().find(|v| v.epoch <= epoch))
    }

    /// versions of `label` as of `epoch`, newest first
    pub fn history(&self, label: &[u8], epoch: u64) -> Vec<Ver> {
        self.users
            .get(label)
            .map(|h| h.iter().rev().filter(|v| v.epoch <= epoch).cloned().collect())
            .unwrap_or_default()
    }

    pub fn labels(&self) -> Vec<Vec<u8>> {
        self.users.keys().cloned().collect()
    }

    /// the exact leaf set committed at `epoch`
    pub fn leaves(&self, epoch: u64) -> Vec<LeafSpec> {
        let mut out = vec![];
        for (label, hist) in &self.users {
            for (i, v) in hist.iter().enumerate() {
                if v.epoch > epoch {
                    break;
                }
                out.push(LeafSpec {
                    label: label.clone(),
                    fresh: true,
                    version: v.version,
                    epoch: v.epoch,
                    value: Some(v.value.clone()),
                });
                if let Some(nx) = hist.get(i + 1) {
                    if nx.epoch <= epoch {
                        out.push(LeafSpec {
                            label: label.clone(),
                            fresh: false,
                            version: v.version,
                            epoch: nx.epoch,
                            value: None,
                        });
                    }
                }
            }
        }
        out
    }
}
