//! C07 — a verifying history proof cannot hide, reorder, invent or misdate versions.

use crate::checks::histcase::HistCase;
use crate::common::*;
use crate::dishonest::{self, Corruption};
use crate::gen::history_json;
use crate::model::{Applied, Batch, Ver};
use crate::mon::*;
use crate::prover::*;
use crate::rng::Rng;
use crate::with_cfg;
use crate::world::*;
use serde_json::json;

pub fn run(ctx: &Ctx) -> i32 {
    let mon = Mon::new();
    let n = ctx.tier.pick(160, 1000);
    par_cases(ctx, &mon, "hist", n, |cc, rng, l| {
        let hot = cc.idx % 3 == 0;
        let mut case = HistCase::random(rng, ctx.tier.pick(14, 28), ctx.tier.pick(6, 10), 4, hot);
        case.cache = CacheOpt::None;
        case.par = AzksParallelismConfig::disabled();
        with_cfg!(case.cfg, TC, { block_on(run_honest_tree::<TC>(cc, &case, rng, l)) })
    });
    let d = ctx.tier.pick(96, 800);
    par_cases(ctx, &mon, "dishonest", d, |cc, rng, l| {
        let cfg = if rng.chance(1, 2) { Cfg::Wa } else { Cfg::Exp };
        with_cfg!(cfg, TC, { block_on(run_dishonest_tree::<TC>(cc, rng, l)) })
    });
    finish(
        ctx,
        &mon,
        Spec::new(
            "exploration",
            "honest generated histories; the adversarial prover assembles history proofs from real nodes: H1 newest k versions dropped with future-marker absence forged from every ancestor, H2 oldest dropped / fewer than N, H3 gaps/duplicates/reorderings and interior rewrites that keep the length and both end points (H3c), H4 wrong value/epoch/nonce, H5 marker proofs omitted/added/swapped/transplanted, H6 previous-version proof missing/other version, H7 tombstones under both verifier modes incl. re-dated tombstoned entries; oracle: key_history_verify Ok(list) => list == model list for that parameter (values may be empty only under AllowMissingValues). H8: dishonest trees (stale marker omitted or added k epochs late, versions 2..9): verification of any history covering the affected update must fail. distinct = (class, params kind, total versions class, position); all cases adversarial",
        )
        .need("honest_accepted", ctx.tier.pick(300, 2000))
        .need("candidates", ctx.tier.pick(10000, 100000))
        .need("H1_candidates", ctx.tier.pick(1000, 10000))
        .need("H8_dishonest_histories_judged", ctx.tier.pick(100, 1000)),
    )
}

type Entry = (u64, Vec<u8>, u64);

fn entries(vs: &[Ver]) -> Vec<Entry> {
    vs.iter().map(|v| (v.version, v.value.clone(), v.epoch)).collect()
}

fn pname(p: &HistoryParams) -> String {
    match p {
        HistoryParams::Complete => "Complete".into(),
        HistoryParams::MostRecent(_) => "MostRecent".into(),
    }
}

fn tclass(n: usize) -> &'static str {
    match n {
        1 => "1",
        2 => "2",
        3..=4 => "3-4",
        5..=8 => "5-8",
        _ => "9+",
    }
}

struct Judge<'a, TC: Configuration> {
    w: &'a World<TC>,
    label: &'a [u8],
    cur: u64,
    hist: serde_json::Value,
}

impl<'a, TC: Configuration> Judge<'a, TC> {
    fn want(&self, p: HistoryParams) -> Vec<Ver> {
        let full = self.w.model.history(self.label, self.cur);
        match p {
            HistoryParams::Complete => full,
            HistoryParams::MostRecent(n) => full.into_iter().take(n).collect(),
        }
    }

    /// accepted => result equals the model (versions, epochs; values exact, or empty when opted in)
    fn judge(&self, l: &mut Local, class: &str, proof: HistoryProof, hp: HistoryParams, allow_missing: bool, pos: &str) {
        l.count("candidates", 1);
        l.eval(1);
        let vp = if allow_missing {
            HistoryVerificationParams::AllowMissingValues { history_params: hp }
        } else {
            HistoryVerificationParams::Default { history_params: hp }
        };
        let total = self.w.model.history(self.label, self.cur).len();
        let key = format!("{class}/{}/{}/{}/{}", pname(&hp), if allow_missing { "allow" } else { "default" }, tclass(total), pos);
        l.case(key.as_bytes(), true);
        let root = self.w.published[self.cur as usize];
        let claimed: Vec<_> = proof.update_proofs.iter().map(|u| json!([u.version, u.epoch, hx(&u.value.0)])).collect();
        let r = guarded(l, "C07:", "key_history_verify", |_| {
            akd::client::key_history_verify::<TC>(&self.w.pk, root, self.cur, AkdLabel(self.label.to_vec()), proof, vp)
        });
        match r {
            Some(Ok(rs)) => {
                l.count("candidates_accepted", 1);
                let want = self.want(hp);
                let ok = rs.len() == want.len()
                    && rs.iter().zip(want.iter()).all(|(r, v)| {
                        r.version == v.version && r.epoch == v.epoch && (r.value.0 == v.value || (allow_missing && r.value.0.is_empty()))
                    });
                if !ok {
                    let first_bad_version = rs
                        .iter()
                        .zip(want.iter())
                        .find(|(r, v)| !(r.version == v.version && r.epoch == v.epoch))
                        .map(|(r, _)| r.version);
                    let vtag = match first_bad_version {
                        Some(1) => "version=1",
                        Some(_) => "version>1",
                        None => "list-shape",
                    };
                    l.violation(
                        format!("C07:{class}/{}/{vtag}", if allow_missing { "AllowMissingValues" } else { "Default" }),
                        format!(
                            "key_history_verify accepted ({class}, {hp:?}, allow_missing={allow_missing}) {:?} but the true list is {:?}",
                            rs.iter().map(vr_json).collect::<Vec<_>>(),
                            want.iter().map(ver_json).collect::<Vec<_>>()
                        ),
                        json!({"cfg": self.w.cfg.name(), "class": class, "label": hx(self.label), "params": format!("{hp:?}"),
                               "allow_missing_values": allow_missing, "epoch": self.cur, "claimed_entries": claimed, "history": self.hist}),
                    );
                }
            }
            Some(Err(_)) => l.count("candidates_rejected", 1),
            None => {}
        }
    }
}

async fn run_honest_tree<TC: Configuration>(cc: &CaseCtx, case: &HistCase, rng: &mut Rng, l: &mut Local) {
    let Ok(mut w) = World::<TC>::new(case.cache, case.par, KeyVrf::hard_coded()).await else {
        l.inconclusive("Directory::new failed");
        return;
    };
    for batch in &case.hist.batches {
        let (applied, res) = w.publish(batch).await;
        if let (Applied::Epoch(..), Err(e)) = (&applied, &res) {
            l.inconclusive(format!("publish failed in C07 case {}: {e}", cc.id));
            return;
        }
    }
    let cur = w.model.epoch;
    if cur == 0 {
        return;
    }
    let forge = Forge::<TC>::new(&w.db, cur, w.vrf.clone()).await;
    let labels = w.model.labels();
    let hist = history_json(&case.hist.batches);
    // a second label to transplant from
    for label in &labels {
        let all = w.model.history(label, cur); // newest first
        let total = all.len();
        let j = Judge::<TC> { w: &w, label, cur, hist: hist.clone() };
        let mut plist: Vec<HistoryParams> = vec![HistoryParams::Complete, HistoryParams::MostRecent(1)];
        if total >= 2 {
            plist.push(HistoryParams::MostRecent(2));
            plist.push(HistoryParams::MostRecent(total));
            plist.push(HistoryParams::MostRecent(total + 1));
        }
        for hp in plist {
            let want = j.want(hp);
            // ---- H0 vacuity guards: akd's own proof and the forge's honest proof are accepted
            match w.dir.key_history(&AkdLabel(label.clone()), hp).await {
                Ok((p, eh)) => match w.verify_history(&eh, label, p.clone(), HistoryVerificationParams::Default { history_params: hp }) {
                    Ok(_) => {
                        l.count("honest_accepted", 1);
                        if let Some(mine) = forge.history_proof(label, &entries(&want), cur, None).await {
                            if mine == p {
                                l.count("forge_reproduces_honest_proof", 1);
                            } else {
                                l.count("forge_differs_from_honest_diagnostic", 1);
                            }
                        }
                    }
                    Err(e) => {
                        l.violation("C07:honest-proof-rejected", format!("honest history proof rejected: {e}"), json!({"label": hx(label), "params": format!("{hp:?}"), "history": hist}));
                        continue;
                    }
                },
                Err(e) => {
                    l.violation("C07:honest-key-history-failed", format!("key_history failed: {e}"), json!({"label": hx(label), "history": hist}));
                    continue;
                }
            }
            let Some(honest) = forge.history_proof(label, &entries(&want), cur, None).await else { continue };
            j.judge(l, "H0-forge-honest", honest.clone(), hp, false, "-");
            j.judge(l, "H0-forge-honest", honest.clone(), hp, true, "-");

            // ---- H1: hide the newest k versions; absence of the future markers forged from ancestors
            for k in 1..total.min(4) {
                let shown: Vec<Ver> = match hp {
                    HistoryParams::Complete => all[k..].to_vec(),
                    HistoryParams::MostRecent(n) => all[k..].iter().take(n).cloned().collect(),
                };
                if shown.is_empty() {
                    continue;
                }
                for depth in [None, Some(0usize), Some(1), Some(2), Some(3), Some(5), Some(8), Some(16), Some(64), Some(1000)] {
                    if let Some(p) = forge.history_proof(label, &entries(&shown), cur, depth).await {
                        l.count("H1_candidates", 1);
                        j.judge(l, "H1-newest-dropped", p, hp, false, &format!("k{}", k.min(3)));
                    }
                }
                // H1b: the absence of an EXISTING future marker "proved" for a label with the same bits but a
                // bit length < 256 (genuinely absent): only the VRF binding of the claimed node label rejects it
                if let Some(base) = forge.history_proof(label, &entries(&shown), cur, None).await {
                    for (i, nm) in base.non_existence_of_future_marker_proofs.iter().enumerate() {
                        if !forge.view.is_leaf(&nm.label) {
                            continue;
                        }
                        for (_k, keep, alt) in forge.view.shortened_label_nonmembership(&nm.label) {
                            let mut p = base.clone();
                            p.non_existence_of_future_marker_proofs[i] = alt;
                            l.count("H1b_shortened_label_candidates", 1);
                            j.judge(l, if keep { "H1b-future-marker-label-shortened-bytes-kept" } else { "H1b-future-marker-label-shortened-canonical" }, p, hp, false, &format!("k{}", k.min(3)));
                        }
                    }
                }
            }
            // ---- H2: oldest dropped / fewer than asked
            if total >= 2 {
                let shown = &want[..want.len() - 1];
                if !shown.is_empty() {
                    if let Some(p) = forge.history_proof(label, &entries(shown), cur, None).await {
                        j.judge(l, "H2-oldest-dropped", p, hp, false, "-");
                    }
                }
            }
            // ---- H3: gaps, duplicates, reorderings
            if want.len() >= 3 {
                let mut e = entries(&want);
                e.remove(1);
                if let Some(p) = forge.history_proof(label, &e, cur, None).await {
                    j.judge(l, "H3-gap", p, hp, false, "-");
                }
            }
            if want.len() >= 2 {
                let mut e = entries(&want);
                let d = e[0].clone();
                e.insert(0, d);
                if let Some(p) = forge.history_proof(label, &e, cur, None).await {
                    j.judge(l, "H3-duplicate", p, hp, false, "-");
                }
                let mut e = entries(&want);
                e.swap(0, 1);
                if let Some(p) = forge.history_proof(label, &e, cur, None).await {
                    j.judge(l, "H3-swapped", p, hp, false, "-");
                }
                let mut e = entries(&want);
                e.reverse();
                if let Some(p) = forge.history_proof(label, &e, cur, None).await {
                    j.judge(l, "H3-reversed", p, hp, false, "-");
                }
            }
            // ---- H3c: same length and same first/last entry, interior rewritten from the label's TRUE entries
            // (a duplicate covering a gap, interior swaps, arbitrary interior substitutions): every update
            // proof is genuine and the marker proofs are the honest ones, so only the verifier's own
            // consecutive-version check can reject these
            if want.len() >= 3 {
                let honest_e = entries(&want);
                let pool = entries(&all);
                let n = honest_e.len();
                let mut cands: Vec<Vec<Entry>> = vec![];
                for i in 1..n - 1 {
                    for src in [i - 1, i + 1] {
                        let mut e = honest_e.clone();
                        e[i] = honest_e[src].clone();
                        cands.push(e);
                    }
                }
                for i in 1..n - 1 {
                    for k in (i + 1)..n - 1 {
                        let mut e = honest_e.clone();
                        e.swap(i, k);
                        cands.push(e);
                    }
                }
                for _ in 0..12 {
                    let mut e = honest_e.clone();
                    for slot in e.iter_mut().take(n - 1).skip(1) {
                        if rng.chance(1, 2) {
                            *slot = rng.pick(&pool).clone();
                        }
                    }
                    cands.push(e);
                }
                cands.retain(|e| *e != honest_e);
                cands.sort();
                cands.dedup();
                rng.shuffle(&mut cands);
                for e in cands.into_iter().take(40) {
                    if let Some(p) = forge.history_proof(label, &e, cur, None).await {
                        l.count("H3c_interior_rewrites", 1);
                        j.judge(l, "H3c-interior-rewritten", p, hp, false, "-");
                    }
                }
            }
            // invented newer version
            {
                let mut e = entries(&want);
                e.insert(0, (all[0].version + 1, b"invented".to_vec(), cur));
                if let Some(p) = forge.history_proof(label, &e, cur, None).await {
                    j.judge(l, "H3-invented-newer-version", p, hp, false, "-");
                }
            }
            // ---- H3d: versions outside the sane range: an extra oldest entry with version 0, a newest entry with
            // a version beyond the current epoch (the verifier must refuse, never panic)
            {
                let mut p = honest.clone();
                if let Some(last) = p.update_proofs.last().cloned() {
                    if last.version == 1 {
                        let mut z = last.clone();
                        z.version = 0;
                        p.update_proofs.push(z);
                        j.judge(l, "H3-version-zero-appended", p, hp, false, "-");
                    }
                }
                let mut p = honest.clone();
                for (k, u) in p.update_proofs.iter_mut().enumerate() {
                    u.version = cur + (want.len() - k) as u64;
                }
                j.judge(l, "H3-versions-beyond-current-epoch", p, hp, false, "-");
                let mut p = honest.clone();
                p.update_proofs[0].version = u64::MAX;
                j.judge(l, "H3-newest-version-u64-max", p, hp, false, "-");
            }
            // ---- H2b: no update proofs at all (with and without marker proofs)
            {
                let mut p = honest.clone();
                p.update_proofs.clear();
                j.judge(l, "H2-no-update-proofs", p.clone(), hp, false, "-");
                p.past_marker_vrf_proofs.clear();
                p.existence_of_past_marker_proofs.clear();
                p.future_marker_vrf_proofs.clear();
                p.non_existence_of_future_marker_proofs.clear();
                j.judge(l, "H2-empty-proof", p, hp, false, "-");
            }
            // ---- H4: per-entry alterations (sampled positions)
            let positions: Vec<usize> = if want.len() <= 3 { (0..want.len()).collect() } else { vec![0, want.len() / 2, want.len() - 1] };
            for &i in &positions {
                let pos = if i == 0 { "newest" } else if i + 1 == want.len() { "oldest" } else { "middle" };
                for (cls, f) in [
                    ("H4-value-altered", Box::new(|u: &mut UpdateProof| u.value = AkdValue(b"forged".to_vec())) as Box<dyn Fn(&mut UpdateProof)>),
                    ("H4-epoch-minus-1", Box::new(|u: &mut UpdateProof| u.epoch = u.epoch.wrapping_sub(1))),
                    ("H4-epoch-plus-1", Box::new(|u: &mut UpdateProof| u.epoch += 1)),
                    ("H4-nonce-altered", Box::new(|u: &mut UpdateProof| u.commitment_nonce[0] ^= 1)),
                    ("H6-previous-proof-missing", Box::new(|u: &mut UpdateProof| u.previous_version_proof = None)),
                    ("H6-previous-vrf-missing", Box::new(|u: &mut UpdateProof| u.previous_version_vrf_proof = None)),
                ] {
                    let mut p = honest.clone();
                    let before = p.update_proofs[i].clone();
                    f(&mut p.update_proofs[i]);
                    if p.update_proofs[i] != before {
                        j.judge(l, cls, p, hp, false, pos);
                    }
                }
                // H9: internally consistent, tree-inconsistent: the field is replaced AND the leaf hash (and the
                // stale leaf hash of the previous version) recomputed, so only the Merkle paths can reject
                {
                    let mut p = honest.clone();
                    let u = &mut p.update_proofs[i];
                    u.value = AkdValue(b"forged-consistent".to_vec());
                    u.existence_proof.hash_val = AzksValue(TC::hash_leaf_with_value(&u.value, u.epoch, &u.commitment_nonce).0);
                    j.judge(l, "H9-value-forged-leaf-hash-recomputed", p, hp, false, pos);
                    for de in [-1i64, 1] {
                        let mut p = honest.clone();
                        let u = &mut p.update_proofs[i];
                        let ne = u.epoch as i64 + de;
                        if ne >= 1 {
                            u.epoch = ne as u64;
                            u.existence_proof.hash_val = AzksValue(TC::hash_leaf_with_value(&u.value, u.epoch, &u.commitment_nonce).0);
                            if let Some(pp) = u.previous_version_proof.as_mut() {
                                pp.hash_val = AzksValue(TC::hash_leaf_with_commitment(TC::stale_azks_value(), u.epoch).0);
                            }
                            j.judge(l, "H9-epoch-forged-leaf-hashes-recomputed", p, hp, false, pos);
                        }
                    }
                }
                // re-forged entry with another epoch (nonce and proofs regenerated consistently)
                for de in [-1i64, 1] {
                    let mut e = entries(&want);
                    let ne = e[i].2 as i64 + de;
                    if ne >= 1 {
                        e[i].2 = ne as u64;
                        if let Some(p) = forge.history_proof(label, &e, cur, None).await {
                            j.judge(l, "H4-epoch-reforged", p, hp, false, pos);
                        }
                    }
                }
                // H6: previous-version proof of another version
                if want[i].version > 2 {
                    let other = forge.node_label(label, false, want[i].version - 2).await;
                    let mut p = honest.clone();
                    p.update_proofs[i].previous_version_proof = Some(forge.membership_or_nearest(&other));
                    p.update_proofs[i].previous_version_vrf_proof = Some(forge.vrf_proof(label, false, want[i].version - 2).await);
                    j.judge(l, "H6-previous-proof-of-other-version", p, hp, false, pos);
                }
                // ---- H7: tombstones
                let true_empty = want[i].value.is_empty();
                let mut p = honest.clone();
                p.update_proofs[i].value = AkdValue(vec![]);
                if !true_empty {
                    j.judge(l, "H7-tombstone-injected", p.clone(), hp, false, pos);
                }
                j.judge(l, "H7-tombstone-injected", p.clone(), hp, true, pos);
                for (cls, ne) in [
                    ("H7-tombstone-epoch-minus-1", want[i].epoch.wrapping_sub(1)),
                    ("H7-tombstone-epoch-plus-1", want[i].epoch + 1),
                    ("H7-tombstone-epoch-one", 1),
                ] {
                    if ne != want[i].epoch && ne >= 1 {
                        // epochs must stay non-increasing towards older entries for the shape check
                        let mut q = p.clone();
                        q.update_proofs[i].epoch = ne;
                        j.judge(l, cls, q, hp, true, pos);
                    }
                }
            }
            // non-monotone epochs: swap the epochs of two adjacent entries
            if want.len() >= 2 {
                let mut e = entries(&want);
                let (a, b) = (e[0].2, e[1].2);
                e[0].2 = b;
                e[1].2 = a;
                if let Some(p) = forge.history_proof(label, &e, cur, None).await {
                    j.judge(l, "H4-epochs-swapped", p, hp, false, "-");
                }
            }
            // ---- H5: marker proofs
            {
                if !honest.past_marker_vrf_proofs.is_empty() {
                    let mut p = honest.clone();
                    p.past_marker_vrf_proofs.pop();
                    p.existence_of_past_marker_proofs.pop();
                    j.judge(l, "H5-past-marker-omitted", p, hp, false, "-");
                    let mut p = honest.clone();
                    p.existence_of_past_marker_proofs[0] = honest.update_proofs[0].existence_proof.clone();
                    j.judge(l, "H5-past-marker-replaced", p, hp, false, "-");
                    let mut p = honest.clone();
                    p.past_marker_vrf_proofs[0] = honest.update_proofs[0].existence_vrf_proof.clone();
                    j.judge(l, "H5-past-marker-vrf-replaced", p, hp, false, "-");
                }
                if !honest.future_marker_vrf_proofs.is_empty() {
                    let mut p = honest.clone();
                    p.future_marker_vrf_proofs.pop();
                    p.non_existence_of_future_marker_proofs.pop();
                    j.judge(l, "H5-future-marker-omitted", p, hp, false, "-");
                    let mut p = honest.clone();
                    p.future_marker_vrf_proofs.remove(0);
                    p.non_existence_of_future_marker_proofs.remove(0);
                    j.judge(l, "H5-first-future-marker-omitted", p, hp, false, "-");
                }
                if honest.future_marker_vrf_proofs.len() >= 2 {
                    let mut p = honest.clone();
                    p.future_marker_vrf_proofs.swap(0, 1);
                    j.judge(l, "H5-future-vrf-swapped", p, hp, false, "-");
                    let mut p = honest.clone();
                    p.non_existence_of_future_marker_proofs.swap(0, 1);
                    j.judge(l, "H5-future-proofs-swapped", p, hp, false, "-");
                }
                let mut p = honest.clone();
                p.future_marker_vrf_proofs.push(honest.update_proofs[0].existence_vrf_proof.clone());
                if let Some(nm) = honest.non_existence_of_future_marker_proofs.first() {
                    p.non_existence_of_future_marker_proofs.push(nm.clone());
                    j.judge(l, "H5-surplus-future-marker", p, hp, false, "-");
                }
                let mut p = honest.clone();
                p.past_marker_vrf_proofs.push(honest.update_proofs[0].existence_vrf_proof.clone());
                p.existence_of_past_marker_proofs.push(honest.update_proofs[0].existence_proof.clone());
                j.judge(l, "H5-surplus-past-marker", p, hp, false, "-");
            }
            // H5b: the two halves of a marker list with UNEQUAL lengths (only the tree proof or only the VRF proof
            // removed / added): must be refused, never index out of bounds
            {
                if !honest.past_marker_vrf_proofs.is_empty() {
                    let mut p = honest.clone();
                    p.existence_of_past_marker_proofs.pop();
                    j.judge(l, "H5-past-marker-tree-proof-removed-vrf-kept", p, hp, false, "-");
                    let mut p = honest.clone();
                    p.past_marker_vrf_proofs.pop();
                    j.judge(l, "H5-past-marker-vrf-removed-tree-proof-kept", p, hp, false, "-");
                }
                if !honest.future_marker_vrf_proofs.is_empty() {
                    let mut p = honest.clone();
                    p.non_existence_of_future_marker_proofs.pop();
                    j.judge(l, "H5-future-marker-tree-proof-removed-vrf-kept", p, hp, false, "-");
                    let mut p = honest.clone();
                    p.future_marker_vrf_proofs.pop();
                    j.judge(l, "H5-future-marker-vrf-removed-tree-proof-kept", p, hp, false, "-");
                }
                let mut p = honest.clone();
                p.existence_of_past_marker_proofs.push(honest.update_proofs[0].existence_proof.clone());
                j.judge(l, "H5-surplus-past-marker-tree-proof-only", p, hp, false, "-");
                if let Some(nm) = honest.non_existence_of_future_marker_proofs.first() {
                    let mut p = honest.clone();
                    p.non_existence_of_future_marker_proofs.push(nm.clone());
                    j.judge(l, "H5-surplus-future-marker-tree-proof-only", p, hp, false, "-");
                }
            }
            // transplant: another label's whole proof
            if labels.len() >= 2 {
                let other = labels.iter().find(|o| *o != label).unwrap();
                let ow = match hp {
                    HistoryParams::Complete => w.model.history(other, cur),
                    HistoryParams::MostRecent(n) => w.model.history(other, cur).into_iter().take(n).collect(),
                };
                if let Some(p) = forge.history_proof(other, &entries(&ow), cur, None).await {
                    j.judge(l, "H5-other-labels-proof", p, hp, false, "-");
                }
            }
            // verifying with a different parameter than the proof was made for
            if let HistoryParams::MostRecent(n) = hp {
                if n < total {
                    j.judge(l, "H2-most-recent-proof-as-complete", honest.clone(), HistoryParams::Complete, false, "-");
                }
                if want.len() >= 2 {
                    j.judge(l, "H2-proof-checked-with-smaller-N", honest.clone(), HistoryParams::MostRecent(want.len() - 1), false, "-");
                }
                if n <= total {
                    j.judge(l, "H2-proof-checked-with-larger-N", honest.clone(), HistoryParams::MostRecent(n + 1), false, "-");
                }
            }
            let _ = rng.next_u64();
        }
    }
    l.sample(json!({"case": cc.id, "kind": "honest-tree", "cfg": case.cfg.name(), "epochs": cur, "labels": labels.len(),
        "first_batches": history_json(&case.hist.batches[..case.hist.batches.len().min(3)])}));
}

/// H8: the tree omits the stale marker of version v (or adds it `late` epochs later).
async fn run_dishonest_tree<TC: Configuration>(cc: &CaseCtx, rng: &mut Rng, l: &mut Local) {
    let db = crate::xdb::XDb::new();
    let mgr = StorageManager::new_no_cache(db.clone());
    let vrf = KeyVrf::hard_coded();
    let Ok(dir) = Dir::<TC>::new(mgr.clone(), vrf.clone(), AzksParallelismConfig::disabled()).await else {
        l.inconclusive("Directory::new failed");
        return;
    };
    let pk = dir.get_public_key().await.unwrap().as_bytes().to_vec();
    let victim = b"victim".to_vec();
    let others: Vec<Vec<u8>> = (0..3).map(|i| format!("other{i}").into_bytes()).collect();
    let n_versions = rng.range(2, 9);
    let bad_version = rng.range(1, n_versions - 1); // the version whose retirement is corrupted
    let late = if rng.chance(1, 2) { 0 } else { rng.range(1, 3) }; // 0 = never retired
    let mut counter = 0u64;
    let mut steps: Vec<String> = vec![];
    let mut pending_late: Option<(u64, u64)> = None; // (version, epochs to wait)
    let mut eh = EpochHash(0, [0u8; 32]);
    let extra = late + rng.range(0, 2);
    for v in 1..=(n_versions + extra) {
        counter += 1;
        let mut batch: Batch = vec![];
        if v <= n_versions {
            batch.push((victim.clone(), format!("val{v}").into_bytes()));
        }
        if rng.chance(1, 2) || batch.is_empty() {
            batch.push((rng.pick(&others).clone(), format!("o{counter}").into_bytes()));
        }
        let mut c = Corruption::default();
        if v == bad_version + 1 && v <= n_versions {
            c.omit_stale_for.push(victim.clone());
            steps.push(format!("epoch {v}: stale({bad_version}) omitted"));
            if late > 0 {
                pending_late = Some((bad_version, late));
            }
        } else if let Some((pv, wait)) = pending_late {
            if wait <= 1 {
                c.add_stale.push((victim.clone(), pv));
                steps.push(format!("epoch {v}: stale({pv}) added late"));
                pending_late = None;
            } else {
                pending_late = Some((pv, wait - 1));
            }
        }
        match dishonest::publish::<TC, _>(&mgr, &vrf, &batch, &c).await {
            Ok(e) => eh = e,
            Err(e) => {
                l.inconclusive(format!("dishonest publish failed: {e}"));
                return;
            }
        }
    }
    let cur = eh.0;
    let forge = Forge::<TC>::new(&db, cur, vrf.clone()).await;
    // true value states as the dishonest server recorded them
    let all: Vec<Entry> = (1..=n_versions).rev().map(|v| (v, format!("val{v}").into_bytes(), v)).collect();
    let detail = json!({"cfg": cfg_of::<TC>().name(), "versions": n_versions, "corrupted_retirement_of_version": bad_version,
        "late_by_epochs": late, "steps": steps, "epoch": cur});
    let mut plist = vec![HistoryParams::Complete, HistoryParams::MostRecent(n_versions as usize)];
    for n in 1..n_versions as usize {
        plist.push(HistoryParams::MostRecent(n));
    }
    for hp in plist {
        let shown: Vec<Entry> = match hp {
            HistoryParams::Complete => all.clone(),
            HistoryParams::MostRecent(n) => all.iter().take(n).cloned().collect(),
        };
        // the history covers the corrupted retirement iff it shows version bad_version+1
        let covers = shown.iter().any(|e| e.0 == bad_version + 1);
        let mut cands: Vec<(&str, HistoryProof)> = vec![];
        if let Ok((p, _)) = dir.key_history(&AkdLabel(victim.clone()), hp).await {
            cands.push(("H8-akd-generator", p));
        }
        for depth in [None, Some(0usize), Some(1), Some(3), Some(1000)] {
            if let Some(p) = forge.history_proof(&victim, &shown, cur, depth).await {
                cands.push(("H8-forge", p));
            }
        }
        // the prover papers over the missing stale leaf: right node label (real VRF proof), the stale leaf hash
        // the verifier expects for the epoch of the replacement, Merkle path borrowed from the nearest node
        if let Some(mut p) = forge.history_proof(&victim, &shown, cur, None).await {
            let mut touched = false;
            for u in p.update_proofs.iter_mut() {
                if u.version == bad_version + 1 {
                    let sl = forge.node_label(&victim, false, bad_version).await;
                    if !forge.view.is_leaf(&sl) || late > 0 {
                        u.previous_version_proof = Some(forge.membership_forced(&sl, AzksValue(TC::hash_leaf_with_commitment(TC::stale_azks_value(), u.epoch).0)));
                        touched = true;
                    }
                }
            }
            if touched {
                cands.push(("H8-forced-previous-version-proof", p));
            }
        }
        for (cls, p) in cands {
            for allow in [false, true] {
                l.eval(1);
                let vp = if allow {
                    HistoryVerificationParams::AllowMissingValues { history_params: hp }
                } else {
                    HistoryVerificationParams::Default { history_params: hp }
                };
                let r = guarded(l, "C07:", "key_history_verify", |_| {
                    akd::client::key_history_verify::<TC>(&pk, eh.1, cur, AkdLabel(victim.clone()), p.clone(), vp)
                });
                let key = format!("{cls}/{}/late{}/{}", pname(&hp), late.min(2), if covers { "covers" } else { "not-covering" });
                l.case(key.as_bytes(), true);
                if covers {
                    l.count("H8_dishonest_histories_judged", 1);
                    if let Some(Ok(_)) = r {
                        l.violation(
                            format!("C07:{cls}/{}", if late == 0 { "stale-marker-never-added" } else { "stale-marker-added-late" }),
                            format!("history verification ({hp:?}) succeeded on a tree that did not retire version {bad_version} in the epoch of its replacement"),
                            detail.clone(),
                        );
                    }
                } else {
                    l.count("H8_not_covering_diagnostic", 1);
                    if let Some(Ok(_)) = r {
                        l.count("H8_not_covering_accepted_diagnostic", 1);
                    }
                }
            }
        }
    }
    l.sample(json!({"case": cc.id, "kind": "dishonest-tree", "detail": detail}));
}
