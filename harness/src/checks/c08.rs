//! C08 — lookup and history verifiers agree on a label's latest version under one root.
//!
//! Set-level monitor over the *real* `akd_core::utils::get_marker_versions` and the verifiers' real
//! marker choice: a proof asserts some leaves present and some absent; two proofs can both verify
//! against one root iff no leaf is asserted present by one and absent by the other.  The set-level
//! verdicts are then replayed on real (dishonest) trees with the real verifiers.

use crate::common::*;
use crate::dishonest::{self, Corruption};
use crate::model::Batch;
use crate::mon::*;
use crate::prover::Forge;
use crate::rng::Rng;
use crate::with_cfg;
use crate::world::Dir;
use akd_core::utils::get_marker_versions;
use serde_json::json;

/// Harness-side re-implementation of the *documented* marker rule (doc comment of
/// `get_marker_versions`), frozen here.  Used ONLY to delimit the extent of known finding F3 for
/// epochs beyond the committed triple list: a no-conflict pair the documented rule also predicts
/// belongs to F3, any other no-conflict pair is a new violation.
pub fn frozen_future(end: u64, epoch: u64) -> Vec<u64> {
    const SKIP: [u64; 7] = [1, 2, 4, 16, 256, 65536, 1 << 32];
    let mut out = vec![];
    // bit positions that are 0 in `end`: set the bit, clear everything below
    let bits = 64 - end.leading_zeros();
    let mut f = end;
    for i in 0..bits {
        if end & (1 << i) == 0 {
            f |= 1 << i;
            f &= !((1u64 << i) - 1);
            if f <= epoch {
                out.push(f);
            }
        }
    }
    let idx = |x: u64| SKIP.iter().rposition(|s| *s <= x).unwrap();
    let slice = &SKIP[idx(end) + 1..idx(epoch) + 1];
    let next_log = 64 - end.leading_zeros(); // log2(end)+1
    let final_log = 63 - epoch.leading_zeros();
    for i in next_log..=final_log {
        let v = 1u64 << i;
        if !slice.is_empty() && v >= slice[0] {
            break;
        }
        out.push(v);
    }
    out.extend_from_slice(slice);
    out
}

fn pow2_floor(m: u64) -> u64 {
    1u64 << (63 - m.leading_zeros())
}

/// lookup(m) vs complete history(1..n) at epoch E: is there a leaf one shows present and the other absent?
fn lvh_conflict(future_n: &[u64], n: u64, m: u64) -> bool {
    if m < n {
        // history shows stale(m) present (retired when m+1 appeared), lookup shows it absent
        return true;
    }
    future_n.contains(&m) || future_n.contains(&pow2_floor(m))
}

/// history(s..n) vs history(s'..m), n < m: future(n) ∩ ([s'..m] ∪ past(s')) ≠ ∅ ?
fn hvh_conflict(future_n: &[u64], past_s2: &[u64], s2: u64, m: u64) -> bool {
    future_n.iter().any(|f| (*f >= s2 && *f <= m) || past_s2.contains(f))
}

pub fn run(ctx: &Ctx) -> i32 {
    let mon = Mon::new();
    if ctx.mode.as_deref() == Some("dump-known") {
        // prints the signature list of F3 for E <= 64 (to regenerate known_findings/C08-F3-E64.txt)
        for e in 1..=64u64 {
            for n in 1..=e {
                let fut = get_marker_versions(1, n, e).1;
                for m in 1..=e {
                    if m != n && !lvh_conflict(&fut, n, m) {
                        println!("C08:LvH/E={e}/n={n}/m={m}");
                    }
                }
            }
        }
        return 0;
    }
    let e_max_lvh = ctx.tier.pick(64u64, 768);
    let e_max_hvh = ctx.tier.pick(64u64, 320);

    // ---- set level, exhaustive
    par_cases(ctx, &mon, "setlevel", e_max_lvh.max(e_max_hvh), |cc, _rng, l| {
        let e = cc.idx + 1;
        let guard_ok = guarded(l, "C08:", &format!("get_marker_versions at epoch {e}"), |l| {
            let futures: Vec<Vec<u64>> = (0..=e).map(|n| if n == 0 { vec![] } else { get_marker_versions(1, n, e).1 }).collect();
            if e <= e_max_lvh {
                for n in 1..=e {
                    for m in 1..=e {
                        if m == n {
                            continue;
                        }
                        l.eval(1);
                        l.enumerated_distinct += 1;
                        l.count("lvh_pairs", 1);
                        if !lvh_conflict(&futures[n as usize], n, m) {
                            l.count("lvh_pairs_without_conflict", 1);
                            let sig = if e <= 64 {
                                format!("C08:LvH/E={e}/n={n}/m={m}")
                            } else {
                                let ff = frozen_future(n, e);
                                if !lvh_conflict(&ff, n, m) {
                                    "C08:LvH/E>64/predicted-by-documented-marker-rule".to_string()
                                } else {
                                    format!("C08:LvH/E={e}/n={n}/m={m}")
                                }
                            };
                            l.violation(
                                sig,
                                format!("at epoch {e} a complete history with latest version {n} and a lookup for version {m} assert no common leaf: both can verify under one root"),
                                json!({"kind": "lookup-vs-complete-history", "E": e, "n": n, "m": m,
                                       "history_absent_fresh": futures[n as usize], "lookup_present_fresh": [m, pow2_floor(m)], "lookup_absent_stale": m}),
                            );
                        }
                    }
                }
            }
            if e <= e_max_hvh {
                let pasts: Vec<Vec<u64>> = (0..=e).map(|s| if s == 0 { vec![] } else { get_marker_versions(s, s.max(1), e).0 }).collect();
                for n in 1..e {
                    let fut = &futures[n as usize];
                    for m in (n + 1)..=e {
                        for s2 in 1..=m {
                            l.eval(1);
                            l.enumerated_distinct += 1;
                            if !hvh_conflict(fut, &pasts[s2 as usize], s2, m) {
                                l.count("hvh_pairs_without_conflict", 1);
                                l.violation(
                                    format!("C08:HvH/E={e}/n={n}/m={m}/s2={s2}"),
                                    format!("at epoch {e} a history ending at version {n} and a history [{s2}..{m}] assert no common leaf: both can verify under one root"),
                                    json!({"kind": "history-vs-history", "E": e, "n": n, "m": m, "s2": s2, "future_of_n": fut, "past_of_s2": pasts[s2 as usize]}),
                                );
                            }
                        }
                        l.count("hvh_nm_pairs", 1);
                    }
                }
            }
        });
        if guard_ok.is_none() {
            return;
        }
        if e == 7 {
            l.sample(json!({"E": 7, "n": 4, "m": 7, "future_markers_of_history(1..4)": get_marker_versions(1, 4, 7).1,
                "lookup(7)_shows_present": [7, 4], "lookup(7)_shows_absent_stale": 7, "conflict": lvh_conflict(&get_marker_versions(1, 4, 7).1, 4, 7)}));
        }
    });

    // ---- sampled large values (around powers of two and the skip-list points)
    let n_samp = ctx.tier.pick(200_000u64, 40_000_000);
    par_cases(ctx, &mon, "sampled", 16, |_cc, rng, l| {
        let per = n_samp / 16;
        for _ in 0..per {
            let e = near_interesting(rng, 1u64 << 40).max(2);
            let m = 2 + rng.below(e - 1); // 2..=e
            let n = 1 + rng.below(m - 1); // 1..m-1
            let s2 = if rng.chance(1, 2) { 1 } else { 1 + rng.below(m) };
            let r = guarded(l, "C08:", &format!("get_marker_versions({n},{n},{e})"), |_| {
                (get_marker_versions(1, n, e).1, get_marker_versions(s2, s2, e).0)
            });
            let Some((fut, past)) = r else { continue };
            l.eval(1);
            l.count("sampled_hvh", 1);
            if !hvh_conflict(&fut, &past, s2, m) {
                l.violation(
                    format!("C08:HvH/E={e}/n={n}/m={m}/s2={s2}"),
                    format!("(sampled) histories ending at {n} and [{s2}..{m}] at epoch {e} assert no common leaf"),
                    json!({"kind": "history-vs-history", "E": e, "n": n, "m": m, "s2": s2}),
                );
            }
            if rng.chance(1, 4) {
                l.count("sampled_lvh", 1);
                if !lvh_conflict(&fut, n, m) {
                    l.count("lvh_pairs_without_conflict", 1);
                    let ff = frozen_future(n, e);
                    let sig = if !lvh_conflict(&ff, n, m) {
                        "C08:LvH/E>64/predicted-by-documented-marker-rule".to_string()
                    } else {
                        format!("C08:LvH/E={e}/n={n}/m={m}")
                    };
                    l.violation(sig, format!("(sampled) lookup({m}) vs history(1..{n}) at epoch {e}: no common leaf"), json!({"E": e, "n": n, "m": m}));
                }
            }
        }
    });

    // ---- replay on real trees with the real verifiers
    let n_replay = ctx.tier.pick(800u64, 6000);
    par_cases(ctx, &mon, "realtree", n_replay, |cc, rng, l| {
        let cfg = if rng.chance(1, 2) { Cfg::Wa } else { Cfg::Exp };
        with_cfg!(cfg, TC, { block_on(replay_on_real_tree::<TC>(cc, rng, l)) })
    });

    finish(
        ctx,
        &mon,
        Spec::new(
            "exploration",
            "exhaustive over E<=64 (quick) / lookup-vs-history E<=512 and history-vs-history E<=256 (thorough): every (E,n,m) and (E,n,m,s') with n != m, using the real get_marker_versions; a pair with an empty present/absent conflict set can verify under one root. Plus sampled tuples up to 2^40 around powers of two. Set-level verdicts are validated against the real lookup_verify/key_history_verify on dishonest trees holding exactly the leaves both proofs need. distinct = enumerated tuples (distinct by construction) + real-tree cases",
        )
        .assume("collision resistance; VRF uniqueness (a leaf is identified by (label, freshness, version))")
        .need("lvh_pairs", ctx.tier.pick(80000, 1000000))
        .need("hvh_nm_pairs", ctx.tier.pick(40000, 1000000))
        .need("realtree_pairs_judged", ctx.tier.pick(80, 1000))
        .need("realtree_both_accept_matches_setlevel", ctx.tier.pick(80, 1000)),
    )
}

fn near_interesting(rng: &mut Rng, max: u64) -> u64 {
    let base = match rng.below(4) {
        0 => 1u64 << rng.range(1, 40),
        1 => *rng.pick(&[2u64, 4, 16, 256, 65536, 1 << 32]),
        _ => rng.below(max) + 1,
    };
    let delta = rng.below(5) as i64 - 2;
    ((base as i64 + delta).max(1) as u64).min(max)
}

/// Build the tree that contains every leaf either proof needs present (present wins), then run
/// the real verifiers.  Set level says "no conflict" <=> both accept.
async fn replay_on_real_tree<TC: Configuration>(cc: &CaseCtx, rng: &mut Rng, l: &mut Local) {
    let e = rng.range(3, 16);
    let lookup_vs_history = rng.chance(1, 2);
    let (n, m, s1, s2);
    if lookup_vs_history {
        n = rng.range(1, e);
        m = loop {
            let x = rng.range(1, e);
            if x != n {
                break x;
            }
        };
        s1 = 1;
        s2 = 0;
    } else {
        m = rng.range(2, e);
        n = rng.range(1, m - 1);
        s1 = rng.range(1, n);
        s2 = rng.range(1, m);
    }
    let victim = b"victim".to_vec();
    // versions whose fresh / stale leaves must be present
    let mut fresh: Vec<u64> = vec![];
    let mut stale: Vec<u64> = vec![];
    let (past1, fut1) = get_marker_versions(s1, n, e);
    fresh.extend(s1..=n);
    fresh.extend(past1.iter());
    stale.extend((s1.max(2) - 1)..n); // stale(v-1) for v in s1..=n, v>1
    if s1 >= 2 {
        stale.push(s1 - 1);
    }
    let (absent_fresh_2, absent_stale_2): (Vec<u64>, Vec<u64>);
    if lookup_vs_history {
        fresh.push(m);
        fresh.push(pow2_floor(m));
        absent_fresh_2 = vec![];
        absent_stale_2 = vec![m];
    } else {
        let (past2, fut2) = get_marker_versions(s2, m, e);
        fresh.extend(s2..=m);
        fresh.extend(past2.iter());
        for v in s2..=m {
            if v > 1 {
                stale.push(v - 1);
            }
        }
        absent_fresh_2 = fut2;
        absent_stale_2 = vec![];
    }
    fresh.sort();
    fresh.dedup();
    stale.sort();
    stale.dedup();
    // set-level prediction on the tree "present wins"
    let conflict_fresh: Vec<u64> = fut1.iter().chain(absent_fresh_2.iter()).filter(|f| fresh.contains(f)).copied().collect();
    let conflict_stale: Vec<u64> = absent_stale_2.iter().filter(|s| stale.contains(s)).copied().collect();
    let predicted_both = conflict_fresh.is_empty() && conflict_stale.is_empty();
    // Half of the cases resolve the conflicts the other way round ("absent wins"): every leaf that one proof
    // needs ABSENT is left out of the tree, so the proof that needs it PRESENT must be rejected - this makes
    // each presence requirement of the verifiers (value leaf, marker leaf, stale leaf) decisive in turn.
    let absent_wins = rng.chance(1, 2) && !predicted_both;
    // what each proof needs present
    let mut req1_fresh: Vec<u64> = (s1..=n).collect();
    req1_fresh.extend(past1.iter());
    let req1_stale: Vec<u64> = (s1..=n).filter(|v| *v > 1).map(|v| v - 1).collect();
    let (req2_fresh, req2_stale): (Vec<u64>, Vec<u64>) = if lookup_vs_history {
        (vec![m, pow2_floor(m)], vec![])
    } else {
        let (past2, _) = get_marker_versions(s2, m, e);
        let mut f: Vec<u64> = (s2..=m).collect();
        f.extend(past2.iter());
        (f, (s2..=m).filter(|v| *v > 1).map(|v| v - 1).collect())
    };
    let (mut predicted_a1, mut predicted_a2) = (true, true);
    if absent_wins {
        fresh.retain(|f| !conflict_fresh.contains(f));
        stale.retain(|x| !conflict_stale.contains(x));
        predicted_a1 = req1_fresh.iter().all(|f| fresh.contains(f)) && req1_stale.iter().all(|x| stale.contains(x));
        predicted_a2 = req2_fresh.iter().all(|f| fresh.contains(f)) && req2_stale.iter().all(|x| stale.contains(x));
        l.count("realtree_absent_wins", 1);
    }

    // The dishonest server also chooses WHEN each version enters the tree: one version per epoch (ep(v) = v),
    // or several versions of the label inside ONE epoch (bursts, everything in the current epoch) - the
    // verifiers only require epochs not to increase as versions decrease.  stale(v) enters together with
    // fresh(v+1).  The set-level prediction does not depend on this choice; the real verifiers must not either.
    let maxv = fresh.iter().chain(stale.iter()).copied().max().unwrap_or(1).max(1);
    let epoch_mode = rng.below(4);
    let mut ep_of: Vec<u64> = vec![0; (maxv + 2) as usize];
    match epoch_mode {
        0 => {
            for v in 1..=maxv + 1 {
                ep_of[v as usize] = v.min(e);
            }
        }
        1 => {
            // random non-decreasing, repeats allowed
            let mut cur = 1u64;
            for v in 1..=maxv + 1 {
                if v > 1 {
                    cur = (cur + rng.below(3)).min(e);
                }
                ep_of[v as usize] = cur;
            }
        }
        2 => {
            // a burst: every version from a pivot on enters in the current epoch
            let pivot = rng.range(1, maxv);
            for v in 1..=maxv + 1 {
                ep_of[v as usize] = if v >= pivot { e } else { v.min(e) };
            }
        }
        _ => {
            for v in 1..=maxv + 1 {
                ep_of[v as usize] = e;
            }
        }
    }
    let ep = |v: u64| -> u64 { ep_of[(v as usize).min(ep_of.len() - 1)] };
    let stale_ep = |v: u64| -> u64 { ep(v + 1).max(ep(v)) };
    l.count(&format!("realtree_epoch_mode_{epoch_mode}"), 1);
    // dishonest server: fresh(v) enters at epoch ep(v) with value val{v}; stale(v) enters with fresh(v+1)
    let db = crate::xdb::XDb::new();
    let mgr = StorageManager::new_no_cache(db.clone());
    let vrf = KeyVrf::hard_coded();
    let Ok(dir) = Dir::<TC>::new(mgr.clone(), vrf.clone(), AzksParallelismConfig::disabled()).await else {
        l.inconclusive("Directory::new failed");
        return;
    };
    let pk = dir.get_public_key().await.unwrap().as_bytes().to_vec();
    let mut eh = EpochHash(0, [0u8; 32]);
    for epoch in 1..=e {
        let mut c = Corruption::default();
        for v in fresh.iter().filter(|v| ep(**v) == epoch) {
            c.add_fresh.push((victim.clone(), *v, format!("val{v}").into_bytes()));
        }
        for v in stale.iter().filter(|v| stale_ep(**v) == epoch) {
            c.add_stale.push((victim.clone(), *v));
        }
        let filler: Batch = vec![(format!("filler{epoch}").into_bytes(), b"x".to_vec())];
        match dishonest::publish::<TC, _>(&mgr, &vrf, &filler, &c).await {
            Ok(x) => eh = x,
            Err(err) => {
                l.inconclusive(format!("dishonest publish failed: {err}"));
                return;
            }
        }
    }
    if eh.0 != e {
        l.inconclusive("dishonest tree did not reach the intended epoch");
        return;
    }
    let forge = Forge::<TC>::new(&db, e, vrf.clone()).await;
    let entries = |s: u64, n: u64| -> Vec<(u64, Vec<u8>, u64)> { (s..=n).rev().map(|v| (v, format!("val{v}").into_bytes(), ep(v))).collect() };
    let hp1 = if s1 == 1 { HistoryParams::Complete } else { HistoryParams::MostRecent((n - s1 + 1) as usize) };
    let p1 = forge.history_proof(&victim, &entries(s1, n), e, None).await;
    let a1 = match p1 {
        Some(p) => akd::client::key_history_verify::<TC>(&pk, eh.1, e, AkdLabel(victim.clone()), p, HistoryVerificationParams::Default { history_params: hp1 }).is_ok(),
        None => false,
    };
    let a2 = if lookup_vs_history {
        match forge.lookup_proof(&victim, m, format!("val{m}").as_bytes(), ep(m), None).await {
            Some(p) => akd::client::lookup_verify::<TC>(&pk, eh.1, e, AkdLabel(victim.clone()), p).is_ok(),
            None => false,
        }
    } else {
        let hp2 = if s2 == 1 { HistoryParams::Complete } else { HistoryParams::MostRecent((m - s2 + 1) as usize) };
        match forge.history_proof(&victim, &entries(s2, m), e, None).await {
            Some(p) => akd::client::key_history_verify::<TC>(&pk, eh.1, e, AkdLabel(victim.clone()), p, HistoryVerificationParams::Default { history_params: hp2 }).is_ok(),
            None => false,
        }
    };
    l.eval(1);
    l.count("realtree_pairs_judged", 1);
    let kind = if lookup_vs_history { "LvH" } else { "HvH" };
    l.case(format!("{kind}/{e}/{n}/{m}/{s1}/{s2}").as_bytes(), true);
    let both = a1 && a2;
    if absent_wins {
        let detail = json!({"kind": kind, "cfg": cfg_of_name::<TC>(), "E": e, "n": n, "m": m, "s1": s1, "s2": s2, "epoch_mode": epoch_mode,
            "fresh_leaves_in_tree": fresh, "stale_leaves_in_tree": stale, "left_out_fresh": conflict_fresh, "left_out_stale": conflict_stale,
            "history1_accepted": a1, "history1_should_be": predicted_a1, "proof2_accepted": a2, "proof2_should_be": predicted_a2});
        if (a1 && !predicted_a1) || (a2 && !predicted_a2) {
            let which = if a1 && !predicted_a1 { "history" } else if lookup_vs_history { "lookup" } else { "second-history" };
            l.violation(
                format!("C08:presence-not-required/{kind}/{which}"),
                format!("REAL verifiers: at epoch {e} the {which} proof is accepted although a leaf it must show present (fresh {conflict_fresh:?} / stale {conflict_stale:?}) is not in the tree - so it can be accepted together with a proof showing that leaf absent"),
                detail,
            );
        } else if a1 == predicted_a1 && a2 == predicted_a2 {
            l.count("realtree_both_accept_matches_setlevel", 1);
            l.count("realtree_absent_wins_as_predicted", 1);
        } else {
            l.count("realtree_setlevel_mismatch", 1);
            l.inconclusive(format!("set-level oracle disagrees with the real verifiers (absent wins) on {detail}"));
        }
        return;
    }
    let detail = json!({"kind": kind, "cfg": cfg_of_name::<TC>(), "E": e, "n": n, "m": m, "s1": s1, "s2": s2, "epoch_mode": epoch_mode,
        "epoch_of_version": (1..=maxv).map(|v| ep(v)).collect::<Vec<_>>(),
        "fresh_leaves_in_tree": fresh, "stale_leaves_in_tree": stale, "history1_accepted": a1, "proof2_accepted": a2,
        "set_level_conflicts": {"fresh": conflict_fresh, "stale": conflict_stale}});
    if both == predicted_both {
        l.count("realtree_both_accept_matches_setlevel", 1);
    } else {
        l.count("realtree_setlevel_mismatch", 1);
        l.inconclusive(format!("set-level oracle disagrees with the real verifiers on {detail}"));
    }
    if both {
        l.count("realtree_both_accepted", 1);
        let sig = if lookup_vs_history {
            format!("C08:LvH/E={e}/n={n}/m={m}")
        } else {
            format!("C08:HvH/E={e}/n={n}/m={m}/s2={s2}")
        };
        l.violation(
            sig,
            format!("REAL verifiers: under one root at epoch {e}, a {hp1:?} history with latest version {n} and a {} with version {m} BOTH verify", if lookup_vs_history { "lookup" } else { "history" }),
            detail,
        );
    }
    if cc.idx < 2 {
        l.sample(json!({"case": cc.id, "kind": kind, "E": e, "n": n, "m": m, "both_accept": both, "predicted_both": predicted_both}));
    }
}

fn cfg_of_name<TC: Configuration>() -> &'static str {
    crate::world::cfg_of::<TC>().name()
}
