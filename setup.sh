#!/bin/bash
# Offline build of the harness (and of akd from /repo's working tree) so later checks are incremental.
set -e
cd "$(dirname "$(readlink -f "$0")")/harness"
export CARGO_NET_OFFLINE=true
[ -f Cargo.lock ] || cp /repo/Cargo.lock .
cargo build --release --bin vcheck
