#!/bin/bash
# tools/try_patch.sh <patch-file> <ID> [<ID> ...]
# Applies a patch to /repo's working tree, runs `./check <ID> quick` (VERIF_TIER overrides) for each
# property, prints the exit code of each, and ALWAYS restores /repo afterwards.
# Serialised with a lock so that two invocations never overlap.
set -u
PATCH="$(readlink -f "$1")"; shift
cd "$(dirname "$(readlink -f "$0")")/.."
exec 9>/var/tmp/akd-verif-try-patch.lock
flock 9
if [ -n "$(git -C /repo status --porcelain --untracked-files=no)" ]; then
  echo "try_patch: /repo working tree is not clean, refusing"; exit 3
fi
# evidence written while a patch is applied must not survive (committed evidence comes from the unchanged tree)
EVBAK="/var/tmp/akd-verif-evidence-backup-$$"; rm -rf "$EVBAK"; cp -r evidence "$EVBAK"
restore() { git -C /repo checkout -q -- . ; git -C /repo clean -fdq -- akd/tests akd_core/tests 2>/dev/null; rm -rf evidence; mv "$EVBAK" evidence; }
trap restore EXIT
if ! git -C /repo apply "$PATCH"; then echo "try_patch: patch does not apply"; exit 3; fi
TIER="${VERIF_TIER:-quick}"
overall=0
for ID in "$@"; do
  out=$(./check "$ID" "$TIER" 2>&1); rc=$?
  nviol=$(printf '%s\n' "$out" | grep -c '^VIOLATION')
  first=$(printf '%s\n' "$out" | grep -A1 '^VIOLATION' | grep 'what:' | head -1 | cut -c1-220)
  echo "RESULT patch=$(basename "$PATCH") property=$ID exit=$rc violation_lines=$nviol $first"
  [ $rc -eq 1 ] || overall=1
done
exit $overall
