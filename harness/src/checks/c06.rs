//! C06 — a verifying lookup proof can only report the label's latest version.
//! Honest directory, adversarial prover holding key and tree.  Oracle: accepted => equals model.latest.

use crate::checks::c05::{mutate_membership, mutate_nonmembership};
use crate::checks::histcase::HistCase;
use crate::common::*;
use crate::gen::history_json;
use crate::model::Applied;
use crate::mon::*;
use crate::prover::*;
use crate::rng::Rng;
use crate::with_cfg;
use crate::world::*;
use serde_json::json;
use std::collections::HashMap;

pub fn run(ctx: &Ctx) -> i32 {
    let mon = Mon::new();
    let n = ctx.tier.pick(800, 6000);
    par_cases(ctx, &mon, "hist", n, |cc, rng, l| {
        let hot = cc.idx % 5 == 0;
        let mut case = HistCase::random(rng, ctx.tier.pick(14, 30), ctx.tier.pick(8, 14), 5, hot);
        case.cache = CacheOpt::None;
        case.par = AzksParallelismConfig::disabled();
        with_cfg!(case.cfg, TC, { block_on(run_case::<TC>(cc, &case, rng, l)) })
    });
    finish(
        ctx,
        &mon,
        Spec::new(
            "exploration",
            "honest generated histories; for every label the adversarial prover assembles lookup proofs from real nodes/VRF proofs: A1 every older version with the freshness proof anchored at EVERY ancestor of the existing stale leaf, A2 altered value/epoch/version/nonce, A3 sub-proofs and VRF proofs of other labels/versions, A4 proofs of earlier epochs against the current root and vice versa, A5 marker replaced / wrong marker version, A6 VRF proofs swapped, A7 every single-point mutation of the three tree sub-proofs. Oracle: lookup_verify Ok(r) => r == model.latest(label, epoch). Honest proof must be accepted first (vacuity guard). distinct = (class, claimed-vs-latest version relation, anchor depth class); non-trivial = all (every case is adversarial)",
        )
        .assume("root hashes are the honest ones returned by publish (C01)")
        .need("honest_accepted", ctx.tier.pick(300, 5000))
        .need("candidates", ctx.tier.pick(20000, 400000))
        .need("A1_old_version_candidates", ctx.tier.pick(1000, 20000)),
    )
}

fn rel(claimed: u64, latest: u64) -> &'static str {
    if claimed < latest {
        "older"
    } else if claimed == latest {
        "latest"
    } else {
        "newer"
    }
}

async fn run_case<TC: Configuration>(cc: &CaseCtx, case: &HistCase, rng: &mut Rng, l: &mut Local) {
    let Ok(mut w) = World::<TC>::new(case.cache, case.par, KeyVrf::hard_coded()).await else {
        l.inconclusive("Directory::new failed");
        return;
    };
    // honest proofs recorded at earlier epochs: (epoch, label) -> proof
    let mut old_proofs: HashMap<(u64, Vec<u8>), LookupProof> = HashMap::new();
    for batch in &case.hist.batches {
        let (applied, res) = w.publish(batch).await;
        if let (Applied::Epoch(..), Err(e)) = (&applied, &res) {
            l.inconclusive(format!("publish failed in C06 case {}: {e}", cc.id));
            return;
        }
        if let Applied::Epoch(e, _) = applied {
            if rng.chance(1, 3) {
                for label in w.model.labels() {
                    if let Ok((p, _)) = w.dir.lookup(AkdLabel(label.clone())).await {
                        old_proofs.insert((e, label), p);
                    }
                }
            }
        }
    }
    let cur = w.model.epoch;
    if cur == 0 {
        return;
    }
    let root = w.published[cur as usize];
    let forge = Forge::<TC>::new(&w.db, cur, w.vrf.clone()).await;
    let labels = w.model.labels();
    let mut honest: HashMap<Vec<u8>, LookupProof> = HashMap::new();
    for label in &labels {
        if let Ok((p, _)) = w.dir.lookup(AkdLabel(label.clone())).await {
            honest.insert(label.clone(), p);
        }
    }

    let hist_json = history_json(&case.hist.batches);
    let cfgname = case.cfg.name();
    // the judge: verify against (epoch, root); accepted => must equal the model's latest
    let judge = |l: &mut Local, class: &str, label: &[u8], p: LookupProof, ep: u64, anchor_depth: Option<u32>, w: &World<TC>| {
        l.count("candidates", 1);
        l.eval(1);
        let root = w.published[ep as usize];
        let latest = w.model.latest(label, ep).cloned();
        let claimed = p.version;
        let key = format!(
            "{class}/{}/{}",
            latest.as_ref().map(|x| rel(claimed, x.version)).unwrap_or("unpublished"),
            anchor_depth.map(|d| if d == 0 { "root" } else if d < 8 { "shallow" } else { "deep" }).unwrap_or("-")
        );
        l.case(key.as_bytes(), true);
        let summary = json!({"version": p.version, "epoch": p.epoch, "value": hx(&p.value.0)});
        let r = guarded(l, "C06:", "lookup_verify", |_| {
            akd::client::lookup_verify::<TC>(&w.pk, root, ep, AkdLabel(label.to_vec()), p)
        });
        match r {
            Some(Ok(vr)) => {
                l.count("candidates_accepted", 1);
                let ok = latest.as_ref().map(|m| ver_matches(m, &vr)).unwrap_or(false);
                if !ok {
                    l.violation(
                        format!("C06:{class}"),
                        format!(
                            "lookup_verify accepted ({class}) {} but the label's latest at epoch {ep} is {}",
                            vr_json(&vr),
                            latest.as_ref().map(ver_json).unwrap_or(json!(null))
                        ),
                        json!({"cfg": cfgname, "class": class, "label": hx(label), "verify_epoch": ep, "claimed": summary,
                               "freshness_anchor_depth": anchor_depth, "history": hist_json}),
                    );
                }
            }
            Some(Err(_)) => l.count("candidates_rejected", 1),
            None => {}
        }
    };

    for label in &labels {
        let versions = w.model.history(label, cur); // newest first
        let latest = versions[0].clone();
        let Some(hp) = honest.get(label).cloned() else {
            l.violation("C06:honest-lookup-failed", "honest lookup failed", json!({"label": hx(label)}));
            continue;
        };
        // vacuity guard: the honest proof is accepted, and the harness's own construction equals it
        match w.verify_lookup(&EpochHash(cur, root), label, hp.clone()) {
            Ok(vr) if ver_matches(&latest, &vr) => l.count("honest_accepted", 1),
            other => {
                l.violation("C06:honest-proof-rejected", format!("honest lookup proof not accepted: {:?}", other.map(|v| vr_json(&v))), json!({"label": hx(label)}));
                continue;
            }
        }
        if let Some(mine) = forge.lookup_proof(label, latest.version, &latest.value, latest.epoch, None).await {
            if mine == hp {
                l.count("forge_reproduces_honest_proof", 1);
            } else {
                l.count("forge_differs_from_honest_diagnostic", 1);
            }
            judge(l, "A0-forge-honest", label, mine, cur, None, &w);
        }

        // ---- A1: older versions, freshness anchored at every ancestor of the existing stale leaf
        let mut olds: Vec<_> = versions.iter().skip(1).cloned().collect();
        rng.shuffle(&mut olds);
        for old in olds.iter().take(5) {
            let stale = forge.node_label(label, false, old.version).await;
            let path = forge.view.path(&stale);
            for anchor in &path {
                if let Some(p) = forge.lookup_proof(label, old.version, &old.value, old.epoch, Some(*anchor)).await {
                    l.count("A1_old_version_candidates", 1);
                    judge(l, "A1-old-version-forged-freshness", label, p, cur, Some(anchor.label_len), &w);
                }
            }
            // A8: the freshness proof speaks about a label with the stale leaf's bits but a bit length
            // k < 256 (genuinely absent from the tree): only the VRF binding of the claimed node label can
            // reject it
            if let Some(base) = forge.lookup_proof(label, old.version, &old.value, old.epoch, None).await {
                for (k, keep, nm) in forge.view.shortened_label_nonmembership(&stale) {
                    let mut p = base.clone();
                    p.freshness_proof = nm;
                    l.count("A8_shortened_label_candidates", 1);
                    judge(l, if keep { "A8-freshness-label-shortened-bytes-kept" } else { "A8-freshness-label-shortened-canonical" }, label, p, cur, Some(k), &w);
                }
            }
            // the server's own generator asked for the non-membership of an existing stale leaf
            if let Ok(DbRecord::Azks(azks)) = w.mgr.get_direct::<Azks>(&akd::append_only_zks::DEFAULT_AZKS_KEY).await {
                if let (Some(mut p), Ok(nm)) = (
                    forge.lookup_proof(label, old.version, &old.value, old.epoch, None).await,
                    azks.get_non_membership_proof::<TC, _>(&w.mgr, stale).await,
                ) {
                    p.freshness_proof = nm;
                    judge(l, "A1-old-version-generator-freshness", label, p, cur, None, &w);
                }
            }
        }

        // ---- A2: single fields altered
        for (cls, f) in [
            ("A2-value-other", Box::new(|p: &mut LookupProof| p.value = AkdValue(b"forged".to_vec())) as Box<dyn Fn(&mut LookupProof)>),
            ("A2-value-empty", Box::new(|p: &mut LookupProof| p.value = AkdValue(vec![]))),
            ("A2-epoch-minus-1", Box::new(|p: &mut LookupProof| p.epoch = p.epoch.wrapping_sub(1))),
            ("A2-epoch-plus-1", Box::new(|p: &mut LookupProof| p.epoch += 1)),
            ("A2-epoch-zero", Box::new(|p: &mut LookupProof| p.epoch = 0)),
            ("A2-epoch-beyond-current", Box::new(move |p: &mut LookupProof| p.epoch = cur + 1)),
            ("A2-version-minus-1", Box::new(|p: &mut LookupProof| p.version = p.version.wrapping_sub(1))),
            ("A2-version-plus-1", Box::new(|p: &mut LookupProof| p.version += 1)),
            ("A2-version-zero", Box::new(|p: &mut LookupProof| p.version = 0)),
            ("A2-version-beyond-epoch", Box::new(move |p: &mut LookupProof| p.version = cur + 1)),
            ("A2-version-max", Box::new(|p: &mut LookupProof| p.version = u64::MAX)),
            ("A2-nonce-bitflip", Box::new(|p: &mut LookupProof| p.commitment_nonce[3] ^= 4)),
            ("A2-nonce-empty", Box::new(|p: &mut LookupProof| p.commitment_nonce.clear())),
        ] {
            let mut p = hp.clone();
            f(&mut p);
            if p != hp {
                judge(l, cls, label, p, cur, None, &w);
            }
        }
        // ---- A9: internally consistent, tree-inconsistent forgeries: a field is replaced AND the leaf hash
        // in the existence proof is recomputed to match, so only the Merkle path up to the root can reject
        {
            let mut p = hp.clone();
            p.value = AkdValue(b"forged-consistent".to_vec());
            p.existence_proof.hash_val = AzksValue(TC::hash_leaf_with_value(&p.value, p.epoch, &p.commitment_nonce).0);
            judge(l, "A9-value-forged-leaf-hash-recomputed", label, p, cur, None, &w);
            for de in [-1i64, 1] {
                let ne = hp.epoch as i64 + de;
                if ne >= 1 {
                    let mut p = hp.clone();
                    p.epoch = ne as u64;
                    p.existence_proof.hash_val = AzksValue(TC::hash_leaf_with_value(&p.value, p.epoch, &p.commitment_nonce).0);
                    judge(l, "A9-epoch-forged-leaf-hash-recomputed", label, p, cur, None, &w);
                }
            }
            let mut p = hp.clone();
            p.commitment_nonce = rng.bytes(32);
            p.value = AkdValue(b"forged-nonce".to_vec());
            p.existence_proof.hash_val = AzksValue(TC::hash_leaf_with_value(&p.value, p.epoch, &p.commitment_nonce).0);
            judge(l, "A9-value-and-nonce-forged-leaf-hash-recomputed", label, p, cur, None, &w);
            // an invented newer version: right VRF proofs and node labels, leaf hash consistent with the claim,
            // Merkle paths borrowed from the nearest real node
            let v = latest.version + 1;
            if v <= cur {
                let val = b"invented".to_vec();
                let fl = forge.node_label(label, true, v).await;
                let nonce = forge.nonce(&fl, v, &val);
                if let Some(mut p) = forge.lookup_proof(label, v, &val, cur, None).await {
                    p.commitment_nonce = nonce.clone();
                    p.existence_proof = forge.membership_forced(&fl, AzksValue(TC::hash_leaf_with_value(&AkdValue(val.clone()), cur, &nonce).0));
                    let mv = 1u64 << (63 - v.leading_zeros());
                    let ml = forge.node_label(label, true, mv).await;
                    if !forge.view.is_leaf(&ml) {
                        p.marker_proof = forge.membership_forced(&ml, p.existence_proof.hash_val);
                    }
                    judge(l, "A9-invented-version-forced-label", label, p, cur, None, &w);
                }
            }
            // the marker proof replaced by a forced one (right label, borrowed path, arbitrary hash)
            {
                let mut p = hp.clone();
                let ml = p.marker_proof.label;
                let mut h = p.marker_proof.hash_val;
                h.0[0] ^= 1;
                p.marker_proof = forge.membership_forced(&ml, h);
                judge(l, "A9-marker-proof-hash-altered", label, p, cur, None, &w);
                let mut p = hp.clone();
                if p.marker_proof.sibling_proofs.len() >= 2 {
                    p.marker_proof.sibling_proofs.remove(0);
                    judge(l, "A9-marker-proof-path-truncated", label, p, cur, None, &w);
                }
            }
        }
        if let Some(older) = versions.get(1) {
            let mut p = hp.clone();
            p.value = AkdValue(older.value.clone());
            if p != hp {
                judge(l, "A2-value-of-previous-version", label, p, cur, None, &w);
            }
            let mut p = hp.clone();
            p.epoch = older.epoch;
            judge(l, "A2-epoch-of-previous-version", label, p, cur, None, &w);
        }
        // fully re-forged proofs claiming a version that does not exist (yet)
        for v in [latest.version + 1, latest.version + 2, cur + 1] {
            if let Some(p) = forge.lookup_proof(label, v, &latest.value, latest.epoch, None).await {
                judge(l, "A2-nonexistent-version-reforged", label, p, cur, None, &w);
            }
        }

        // ---- A3: material of another label / another version
        if labels.len() >= 2 {
            let other = loop {
                let o = rng.pick(&labels);
                if o != label {
                    break o.clone();
                }
            };
            if let Some(op) = honest.get(&other) {
                judge(l, "A3-other-labels-whole-proof", label, op.clone(), cur, None, &w);
                for (cls, f) in [
                    ("A3-existence-proof-of-other-label", Box::new(|p: &mut LookupProof, o: &LookupProof| p.existence_proof = o.existence_proof.clone()) as Box<dyn Fn(&mut LookupProof, &LookupProof)>),
                    ("A3-existence-vrf-of-other-label", Box::new(|p: &mut LookupProof, o: &LookupProof| p.existence_vrf_proof = o.existence_vrf_proof.clone())),
                    ("A3-existence-pair-of-other-label", Box::new(|p: &mut LookupProof, o: &LookupProof| {
                        p.existence_proof = o.existence_proof.clone();
                        p.existence_vrf_proof = o.existence_vrf_proof.clone();
                        p.commitment_nonce = o.commitment_nonce.clone();
                        p.value = o.value.clone();
                        p.epoch = o.epoch;
                    })),
                    ("A3-marker-pair-of-other-label", Box::new(|p: &mut LookupProof, o: &LookupProof| {
                        p.marker_proof = o.marker_proof.clone();
                        p.marker_vrf_proof = o.marker_vrf_proof.clone();
                    })),
                    ("A3-freshness-pair-of-other-label", Box::new(|p: &mut LookupProof, o: &LookupProof| {
                        p.freshness_proof = o.freshness_proof.clone();
                        p.freshness_vrf_proof = o.freshness_vrf_proof.clone();
                    })),
                ] {
                    let mut p = hp.clone();
                    f(&mut p, op);
                    judge(l, cls, label, p, cur, None, &w);
                }
            }
        }
        if versions.len() >= 2 {
            // freshness pair taken from a *future-free* version: stale(v) of the latest is absent, use it for an old version
            let old = &versions[1];
            if let Some(mut p) = forge.lookup_proof(label, old.version, &old.value, old.epoch, None).await {
                p.freshness_proof = hp.freshness_proof.clone();
                p.freshness_vrf_proof = hp.freshness_vrf_proof.clone();
                judge(l, "A3-freshness-pair-of-latest-version-on-old", label, p, cur, None, &w);
            }
        }

        // ---- A4: other epochs
        for ((e, lab), p) in old_proofs.iter() {
            if lab == label && *e < cur {
                judge(l, "A4-old-epoch-proof-vs-current-root", label, p.clone(), cur, None, &w);
                // and the honest use: old proof against its own epoch's root must be accepted & correct
                judge(l, "A4-old-epoch-proof-vs-its-own-root", label, p.clone(), *e, None, &w);
                judge(l, "A4-current-proof-vs-old-root", label, hp.clone(), *e, None, &w);
            }
        }

        // ---- A5: marker games
        {
            let mut p = hp.clone();
            p.marker_proof = p.existence_proof.clone();
            p.marker_vrf_proof = p.existence_vrf_proof.clone();
            if p != hp {
                judge(l, "A5-marker-replaced-by-existence", label, p, cur, None, &w);
            }
            let pow = 1u64 << (63 - latest.version.leading_zeros());
            for mv in [pow / 2, pow * 2, 1] {
                if mv >= 1 && mv != pow {
                    let ml = forge.node_label(label, true, mv).await;
                    let mut p = hp.clone();
                    p.marker_proof = forge.membership_or_nearest(&ml);
                    p.marker_vrf_proof = forge.vrf_proof(label, true, mv).await;
                    judge(l, "A5-marker-of-wrong-version", label, p, cur, None, &w);
                }
            }
        }
        // ---- A6: VRF proofs swapped
        {
            let mut p = hp.clone();
            std::mem::swap(&mut p.existence_vrf_proof, &mut p.freshness_vrf_proof);
            judge(l, "A6-existence-and-freshness-vrf-swapped", label, p, cur, None, &w);
            let mut p = hp.clone();
            std::mem::swap(&mut p.existence_vrf_proof, &mut p.marker_vrf_proof);
            if p != hp {
                judge(l, "A6-existence-and-marker-vrf-swapped", label, p, cur, None, &w);
            }
            let mut p = hp.clone();
            p.freshness_vrf_proof = forge.vrf_proof(label, true, latest.version).await;
            p.freshness_proof.label = forge.node_label(label, true, latest.version).await;
            judge(l, "A6-freshness-for-fresh-label", label, p, cur, None, &w);
        }
        // ---- A7: single-point mutations of the tree sub-proofs (sampled)
        if rng.chance(1, 3) {
            for (cls, m) in mutate_membership(rng, &hp.existence_proof) {
                let mut p = hp.clone();
                p.existence_proof = m;
                judge(l, &format!("A7-existence/{cls}"), label, p, cur, None, &w);
            }
            for (cls, m) in mutate_membership(rng, &hp.marker_proof) {
                let mut p = hp.clone();
                p.marker_proof = m;
                judge(l, &format!("A7-marker/{cls}"), label, p, cur, None, &w);
            }
            for (cls, m) in mutate_nonmembership::<TC>(rng, &hp.freshness_proof) {
                let mut p = hp.clone();
                p.freshness_proof = m;
                judge(l, &format!("A7-freshness/{cls}"), label, p, cur, None, &w);
            }
        }
    }
    l.sample(json!({"case": cc.id, "cfg": cfgname, "epochs": cur, "labels": labels.len(),
        "first_batches": history_json(&case.hist.batches[..case.hist.batches.len().min(3)])}));
}
