//! C19 — proofs survive protobuf encoding unchanged; malformed input is rejected cleanly.

use crate::checks::histcase::HistCase;
use crate::common::*;
use crate::model::Applied;
use crate::mon::*;
use crate::rng::Rng;
use crate::with_cfg;
use crate::world::*;
use akd::auditor::{audit_verify, verify_consecutive_append_only};
use akd::local_auditing::{generate_audit_blobs, AuditBlob, AuditBlobName};
use akd_core::proto::specs::types as pb;
use protobuf::Message;
use serde_json::json;
use std::convert::{TryFrom, TryInto};

pub fn run(ctx: &Ctx) -> i32 {
    let mon = Mon::new();
    let n = match ctx.mode.as_deref() {
        Some("small") => 4,
        _ => ctx.tier.pick(400, 4000),
    };
    par_cases(ctx, &mon, "hist", n, |cc, rng, l| {
        let mut case = HistCase::random(rng, 8, 6, 4, cc.idx % 4 == 0);
        case.hist.batches.truncate(8);
        case.cache = CacheOpt::None;
        case.par = AzksParallelismConfig::disabled();
        with_cfg!(case.cfg, TC, { block_on(run_case::<TC>(ctx, cc, &case, rng, l)) })
    });
    par_cases(ctx, &mon, "names", 4, |_cc, rng, l| {
        blob_names(rng, l);
    });
    finish(
        ctx,
        &mon,
        Spec::new(
            "exploration",
            "corpus = every lookup / history / append-only proof (and each component) produced over generated histories; round trip value -> message -> bytes -> message -> value must be the identity and verification of the decoded proof must give the same result (through parse_from_bytes + try_into, and AuditBlob::new/decode + verify_consecutive_append_only). Hostile inputs: truncation at every/200 lengths, single bit flips, byte-range splices between two proofs, random bytes; message-level: each optional field deleted, label value of 33 bytes, label_len 257/u32::MAX, digests of 0/31/33 bytes, direction 2/16/257/u32::MAX, 0/1/3 children, empty sibling lists; audit blob names with missing parts, non-hex, odd length. Decoding never panics (catch_unwind); a decoded mutant that still verifies must verify to the same result. distinct = (message type, mutation class, outcome); non-trivial = mutated input",
        )
        .need("round_trips", if ctx.mode.is_some() { 20 } else { ctx.tier.pick(1_000, 20_000) })
        .need("hostile_decodes", if ctx.mode.is_some() { 1000 } else { ctx.tier.pick(30_000, 300_000) })
        .need("message_level_mutations", if ctx.mode.is_some() { 100 } else { ctx.tier.pick(5_000, 50_000) })
        .need("blob_names_tried", 100),
    )
}

#[derive(Clone, PartialEq, Debug)]
enum Verdict {
    Lookup(VerifyResult),
    History(Vec<VerifyResult>),
    AuditOk,
    Rejected,
}

struct Env<'a, TC: Configuration> {
    w: &'a World<TC>,
}

impl<'a, TC: Configuration> Env<'a, TC> {
    fn v_lookup(&self, eh: &EpochHash, label: &[u8], p: LookupProof) -> Verdict {
        match self.w.verify_lookup(eh, label, p) {
            Ok(r) => Verdict::Lookup(r),
            Err(_) => Verdict::Rejected,
        }
    }
    fn v_history(&self, eh: &EpochHash, label: &[u8], p: HistoryProof, hp: HistoryParams) -> Verdict {
        match self.w.verify_history(eh, label, p, HistoryVerificationParams::Default { history_params: hp }) {
            Ok(r) => Verdict::History(r),
            Err(_) => Verdict::Rejected,
        }
    }
}

fn outcome_name(v: &Result<Verdict, String>, orig: &Verdict) -> &'static str {
    match v {
        Err(_) => "decode-error",
        Ok(Verdict::Rejected) => "decoded-and-rejected",
        Ok(x) if x == orig => "decoded-and-same-result",
        Ok(_) => "decoded-and-DIFFERENT-result",
    }
}

/// byte-level mutants of an encoding
fn byte_mutants(rng: &mut Rng, bytes: &[u8], other: &[u8], quick: bool) -> Vec<(&'static str, Vec<u8>)> {
    let mut out = vec![];
    let n = bytes.len();
    if n <= 400 {
        for k in 0..n {
            out.push(("truncated", bytes[..k].to_vec()));
        }
    } else {
        for _ in 0..(if quick { 60 } else { 200 }) {
            out.push(("truncated", bytes[..rng.usize_below(n)].to_vec()));
        }
    }
    for _ in 0..(if quick { 120 } else { 500 }) {
        let mut b = bytes.to_vec();
        let i = rng.usize_below(n.max(1));
        if n > 0 {
            b[i] ^= 1 << rng.below(8);
        }
        out.push(("bit-flip", b));
    }
    for _ in 0..(if quick { 10 } else { 40 }) {
        if n > 2 && other.len() > 2 {
            let a0 = rng.usize_below(n);
            let a1 = a0 + rng.usize_below(n - a0);
            let o0 = rng.usize_below(other.len());
            let o1 = o0 + rng.usize_below((other.len() - o0).min(64));
            let mut b = bytes[..a0].to_vec();
            b.extend_from_slice(&other[o0..o1]);
            b.extend_from_slice(&bytes[a1..]);
            out.push(("splice", b));
        }
    }
    for _ in 0..(if quick { 10 } else { 40 }) {
        let len = rng.usize_below(n.max(8) * 2);
        out.push(("random-bytes", rng.bytes(len)));
    }
    for _ in 0..5 {
        let mut b = bytes.to_vec();
        let extra = 1 + rng.usize_below(16);
        b.extend(rng.bytes(extra));
        out.push(("trailing-garbage", b));
    }
    out
}

fn bad_label(kind: u64) -> pb::NodeLabel {
    let mut l = pb::NodeLabel::new();
    match kind % 5 {
        0 => {
            l.label_val = Some(vec![1u8; 33]);
            l.label_len = Some(256);
        }
        1 => {
            l.label_val = Some(vec![1u8; 32]);
            l.label_len = Some(257);
        }
        2 => {
            l.label_val = Some(vec![1u8; 32]);
            l.label_len = Some(u32::MAX);
        }
        3 => {
            l.label_val = Some(vec![0u8; 64]);
            l.label_len = Some(0);
        }
        _ => {
            l.label_val = None;
            l.label_len = Some(3);
        }
    }
    l
}

/// message-level mutants of a membership proof message
fn mutate_pb_membership(rng: &mut Rng, m: &pb::MembershipProof) -> Vec<(&'static str, pb::MembershipProof)> {
    let mut out = vec![];
    let mut x = m.clone();
    x.label = protobuf::MessageField::none();
    out.push(("label-deleted", x));
    let mut x = m.clone();
    x.hash_val = None;
    out.push(("hash-deleted", x));
    for len in [0usize, 31, 33, 64] {
        let mut x = m.clone();
        x.hash_val = Some(vec![7u8; len]);
        out.push(("digest-wrong-size", x));
    }
    for k in 0..5 {
        let mut x = m.clone();
        x.label = protobuf::MessageField::some(bad_label(k));
        out.push(("bad-label", x));
    }
    if !m.sibling_proofs.is_empty() {
        let i = rng.usize_below(m.sibling_proofs.len());
        for d in [2u32, 16, 257, 256, u32::MAX] {
            let mut x = m.clone();
            x.sibling_proofs[i].direction = Some(d);
            out.push(("direction-out-of-range", x));
        }
        let mut x = m.clone();
        x.sibling_proofs[i].direction = None;
        out.push(("direction-deleted", x));
        let mut x = m.clone();
        x.sibling_proofs[i].siblings.clear();
        out.push(("siblings-empty", x));
        let mut x = m.clone();
        let s = x.sibling_proofs[i].siblings[0].clone();
        x.sibling_proofs[i].siblings.push(s.clone());
        x.sibling_proofs[i].siblings.push(s);
        out.push(("siblings-three", x));
        let mut x = m.clone();
        x.sibling_proofs[i].label = protobuf::MessageField::none();
        out.push(("sibling-parent-label-deleted", x));
        let mut x = m.clone();
        x.sibling_proofs[i].siblings[0].value = Some(vec![1u8; 31]);
        out.push(("digest-wrong-size", x));
        let mut x = m.clone();
        x.sibling_proofs[i].siblings[0].label = protobuf::MessageField::some(bad_label(rng.below(5)));
        out.push(("bad-label", x));
    }
    out
}

fn mutate_pb_nonmembership(rng: &mut Rng, m: &pb::NonMembershipProof) -> Vec<(&'static str, pb::NonMembershipProof)> {
    let mut out = vec![];
    let mut x = m.clone();
    x.label = protobuf::MessageField::none();
    out.push(("label-deleted", x));
    let mut x = m.clone();
    x.longest_prefix = protobuf::MessageField::none();
    out.push(("longest-prefix-deleted", x));
    let mut x = m.clone();
    x.longest_prefix_membership_proof = protobuf::MessageField::none();
    out.push(("membership-deleted", x));
    for keep in [0usize, 1, 3] {
        let mut x = m.clone();
        while x.longest_prefix_children.len() > keep {
            x.longest_prefix_children.pop();
        }
        while x.longest_prefix_children.len() < keep {
            let c = m.longest_prefix_children[0].clone();
            x.longest_prefix_children.push(c);
        }
        out.push(("children-count", x));
    }
    let mut x = m.clone();
    x.longest_prefix = protobuf::MessageField::some(bad_label(rng.below(5)));
    out.push(("bad-label", x));
    if let Some(mp) = m.longest_prefix_membership_proof.as_ref() {
        for (c, mm) in mutate_pb_membership(rng, mp) {
            let mut x = m.clone();
            x.longest_prefix_membership_proof = protobuf::MessageField::some(mm);
            out.push((c, x));
        }
    }
    out
}

async fn run_case<TC: Configuration>(ctx: &Ctx, cc: &CaseCtx, case: &HistCase, rng: &mut Rng, l: &mut Local) {
    let quick = ctx.tier == Tier::Quick || ctx.mode.is_some();
    let Ok(mut w) = World::<TC>::new(case.cache, case.par, KeyVrf::hard_coded()).await else {
        l.inconclusive("Directory::new failed");
        return;
    };
    for b in &case.hist.batches {
        let (a, r) = w.publish(b).await;
        if matches!(a, Applied::Epoch(..)) && r.is_err() {
            l.inconclusive("publish failed");
            return;
        }
    }
    let cur = w.model.epoch;
    if cur == 0 {
        return;
    }
    let env = Env::<TC> { w: &w };
    let labels = w.model.labels();
    let mut prev_bytes: Vec<u8> = vec![1, 2, 3];
    let mut labels_s = labels.clone();
    rng.shuffle(&mut labels_s);
    for label in labels_s.iter().take(if quick { 3 } else { 6 }) {
        // ================= lookup proofs
        let Ok((p, eh)) = w.dir.lookup(AkdLabel(label.clone())).await else { continue };
        let orig = env.v_lookup(&eh, label, p.clone());
        if orig == Verdict::Rejected {
            l.inconclusive("honest lookup proof rejected (C02 decides)");
            return;
        }
        let msg = pb::LookupProof::from(&p);
        let bytes = msg.write_to_bytes().unwrap();
        let decode = |b: &[u8]| -> Result<LookupProof, String> {
            let m = pb::LookupProof::parse_from_bytes(b).map_err(|e| e.to_string())?;
            LookupProof::try_from(&m).map_err(|e| e.to_string())
        };
        l.eval(1);
        l.count("round_trips", 1);
        match decode(&bytes) {
            Ok(p2) if p2 == p && env.v_lookup(&eh, label, p2.clone()) == orig => {}
            other => {
                l.violation("C19:round-trip/LookupProof", format!("lookup proof does not survive protobuf: {:?}", other.map(|_| "decoded to a different value / verdict")), json!({"cfg": case.cfg.name(), "label": hx(label), "bytes": hex::encode(&bytes)}));
                return;
            }
        }
        // components
        macro_rules! rt {
            ($val:expr, $pbty:ty, $ty:ty, $name:expr) => {{
                let m: $pbty = (&$val).into();
                let b = m.write_to_bytes().unwrap();
                let back: Result<$ty, String> = <$pbty>::parse_from_bytes(&b).map_err(|e| e.to_string()).and_then(|mm| <$ty>::try_from(&mm).map_err(|e| e.to_string()));
                l.count("round_trips", 1);
                l.eval(1);
                if back.as_ref().ok() != Some(&$val) {
                    l.violation(format!("C19:round-trip/{}", $name), format!("{} does not survive protobuf", $name), json!({"bytes": hex::encode(&b)}));
                    return;
                }
            }};
        }
        rt!(p.existence_proof, pb::MembershipProof, MembershipProof, "MembershipProof");
        rt!(p.marker_proof, pb::MembershipProof, MembershipProof, "MembershipProof");
        rt!(p.freshness_proof, pb::NonMembershipProof, NonMembershipProof, "NonMembershipProof");
        rt!(p.freshness_proof.longest_prefix_children[0], pb::AzksElement, AzksElement, "AzksElement");
        rt!(p.freshness_proof.longest_prefix, pb::NodeLabel, NodeLabel, "NodeLabel");
        rt!(TC::empty_label(), pb::NodeLabel, NodeLabel, "NodeLabel(empty sentinel)");
        for sp in p.existence_proof.sibling_proofs.iter().take(3) {
            rt!(sp.clone(), pb::SiblingProof, SiblingProof, "SiblingProof");
        }
        // hostile bytes
        for (class, b) in byte_mutants(rng, &bytes, &prev_bytes, quick) {
            l.count("hostile_decodes", 1);
            l.eval(1);
            let r = guarded(l, "C19:", "decoding a LookupProof", |_| decode(&b).map(|p2| env.v_lookup(&eh, label, p2)));
            let Some(r) = r else { return };
            let o = outcome_name(&r, &orig);
            l.case(format!("LookupProof/{class}/{o}").as_bytes(), true);
            if o == "decoded-and-DIFFERENT-result" {
                l.violation(format!("C19:different-result/LookupProof/{class}"), format!("a {class} encoding decodes to a lookup proof that verifies to a DIFFERENT result: {r:?} vs {orig:?}"), json!({"bytes": hex::encode(&b), "label": hx(label)}));
                return;
            }
        }
        // message-level mutations
        let mut msgs: Vec<(&str, pb::LookupProof)> = vec![];
        macro_rules! del {
            ($field:ident, $name:expr) => {{
                let mut x = msg.clone();
                x.$field = Default::default();
                msgs.push(($name, x));
            }};
        }
        del!(epoch, "field-deleted");
        del!(value, "field-deleted");
        del!(version, "field-deleted");
        del!(existence_vrf_proof, "field-deleted");
        del!(existence_proof, "field-deleted");
        del!(marker_vrf_proof, "field-deleted");
        del!(marker_proof, "field-deleted");
        del!(freshness_vrf_proof, "field-deleted");
        del!(freshness_proof, "field-deleted");
        del!(commitment_nonce, "field-deleted");
        for (c, m) in mutate_pb_membership(rng, msg.existence_proof.as_ref().unwrap()) {
            let mut x = msg.clone();
            x.existence_proof = protobuf::MessageField::some(m);
            msgs.push((c, x));
        }
        for (c, m) in mutate_pb_nonmembership(rng, msg.freshness_proof.as_ref().unwrap()) {
            let mut x = msg.clone();
            x.freshness_proof = protobuf::MessageField::some(m);
            msgs.push((c, x));
        }
        for (class, m) in msgs {
            l.count("message_level_mutations", 1);
            l.eval(1);
            let b = m.write_to_bytes().unwrap();
            let r = guarded(l, "C19:", &format!("converting a LookupProof message ({class})"), |_| decode(&b).map(|p2| env.v_lookup(&eh, label, p2)));
            let Some(r) = r else { return };
            let o = outcome_name(&r, &orig);
            l.case(format!("LookupProof/msg-{class}/{o}").as_bytes(), true);
            if o == "decoded-and-DIFFERENT-result" {
                l.violation(format!("C19:different-result/LookupProof/msg-{class}"), format!("message mutation {class} verifies to a different result"), json!({"bytes": hex::encode(&b)}));
                return;
            }
        }
        prev_bytes = bytes;

        // ================= history proofs
        for hp in [HistoryParams::Complete, HistoryParams::MostRecent(2)] {
            let Ok((h, heh)) = w.dir.key_history(&AkdLabel(label.clone()), hp).await else { continue };
            let horig = env.v_history(&heh, label, h.clone(), hp);
            let hmsg = pb::HistoryProof::from(&h);
            let hbytes = hmsg.write_to_bytes().unwrap();
            let hdecode = |b: &[u8]| -> Result<HistoryProof, String> {
                let m = pb::HistoryProof::parse_from_bytes(b).map_err(|e| e.to_string())?;
                HistoryProof::try_from(&m).map_err(|e| e.to_string())
            };
            l.count("round_trips", 1);
            l.eval(1);
            match hdecode(&hbytes) {
                Ok(h2) if h2 == h && env.v_history(&heh, label, h2.clone(), hp) == horig => {}
                _ => {
                    l.violation("C19:round-trip/HistoryProof", "history proof does not survive protobuf", json!({"cfg": case.cfg.name(), "label": hx(label), "params": format!("{hp:?}")}));
                    return;
                }
            }
            for u in h.update_proofs.iter().take(2) {
                rt!(u.clone(), pb::UpdateProof, UpdateProof, "UpdateProof");
            }
            let muts = byte_mutants(rng, &hbytes, &prev_bytes, true);
            for (class, b) in muts.into_iter().take(if quick { 120 } else { 400 }) {
                l.count("hostile_decodes", 1);
                l.eval(1);
                let r = guarded(l, "C19:", "decoding a HistoryProof", |_| hdecode(&b).map(|h2| env.v_history(&heh, label, h2, hp)));
                let Some(r) = r else { return };
                let o = outcome_name(&r, &horig);
                l.case(format!("HistoryProof/{class}/{o}").as_bytes(), true);
                if o == "decoded-and-DIFFERENT-result" {
                    l.violation(format!("C19:different-result/HistoryProof/{class}"), format!("a {class} encoding decodes to a history proof that verifies to a different result"), json!({"bytes_len": b.len(), "label": hx(label)}));
                    return;
                }
            }
            // message level: update proof fields
            let mut hmsgs: Vec<(&str, pb::HistoryProof)> = vec![];
            if !hmsg.update_proofs.is_empty() {
                macro_rules! hdel {
                    ($field:ident) => {{
                        let mut x = hmsg.clone();
                        x.update_proofs[0].$field = Default::default();
                        hmsgs.push(("update-field-deleted", x));
                    }};
                }
                hdel!(epoch);
                hdel!(value);
                hdel!(version);
                hdel!(existence_vrf_proof);
                hdel!(existence_proof);
                hdel!(previous_version_vrf_proof);
                hdel!(previous_version_proof);
                hdel!(commitment_nonce);
                let mut x = hmsg.clone();
                x.update_proofs.clear();
                hmsgs.push(("no-update-proofs", x));
            }
            if !hmsg.non_existence_of_future_marker_proofs.is_empty() {
                for (c, m) in mutate_pb_nonmembership(rng, &hmsg.non_existence_of_future_marker_proofs[0]) {
                    let mut x = hmsg.clone();
                    x.non_existence_of_future_marker_proofs[0] = m;
                    hmsgs.push((c, x));
                }
            }
            for (class, m) in hmsgs {
                l.count("message_level_mutations", 1);
                l.eval(1);
                let b = m.write_to_bytes().unwrap();
                let r = guarded(l, "C19:", &format!("converting a HistoryProof message ({class})"), |_| hdecode(&b).map(|h2| env.v_history(&heh, label, h2, hp)));
                let Some(r) = r else { return };
                let o = outcome_name(&r, &horig);
                l.case(format!("HistoryProof/msg-{class}/{o}").as_bytes(), true);
                if o == "decoded-and-DIFFERENT-result" {
                    l.violation(format!("C19:different-result/HistoryProof/msg-{class}"), format!("message mutation {class} verifies to a different result"), json!({}));
                    return;
                }
            }
        }
    }

    // ================= append-only proofs and audit blobs
    let s = rng.below(cur);
    let e = rng.range(s + 1, cur);
    if let Ok(ap) = w.dir.audit(s, e).await {
        let hashes: Vec<Digest> = w.published[s as usize..=e as usize].to_vec();
        let amsg = pb::AppendOnlyProof::from(&ap);
        let abytes = amsg.write_to_bytes().unwrap();
        let adecode = |b: &[u8]| -> Result<AppendOnlyProof, String> {
            let m = pb::AppendOnlyProof::parse_from_bytes(b).map_err(|e| e.to_string())?;
            AppendOnlyProof::try_from(&m).map_err(|e| e.to_string())
        };
        l.count("round_trips", 1);
        l.eval(1);
        match adecode(&abytes) {
            Ok(a2) if a2 == ap && audit_verify::<TC>(hashes.clone(), a2.clone()).await.is_ok() => {}
            _ => {
                l.violation("C19:round-trip/AppendOnlyProof", "append-only proof does not survive protobuf", json!({"s": s, "e": e}));
                return;
            }
        }
        // audit blobs
        match generate_audit_blobs(hashes.clone(), ap.clone()) {
            Err(err) => {
                l.violation("C19:audit-blobs-failed", format!("generate_audit_blobs failed: {err:?}"), json!({}));
                return;
            }
            Ok(blobs) => {
                for (i, blob) in blobs.iter().enumerate() {
                    l.count("round_trips", 1);
                    l.eval(1);
                    let name = blob.name.to_string();
                    let back = AuditBlobName::try_from(name.as_str());
                    if back.as_ref().ok() != Some(&blob.name) {
                        l.violation("C19:round-trip/AuditBlobName", "audit blob name does not survive to_string/try_from", json!({"name": name}));
                        return;
                    }
                    match blob.decode() {
                        Ok((ep, ph, chh, proof)) => {
                            let ok = ep == s + i as u64 && ph == hashes[i] && chh == hashes[i + 1] && proof == ap.proofs[i] && verify_consecutive_append_only::<TC>(&proof, ph, chh, ep + 1).await.is_ok();
                            if !ok {
                                l.violation("C19:round-trip/AuditBlob", "decoded audit blob differs from the original or does not verify", json!({"name": name}));
                                return;
                            }
                        }
                        Err(err) => {
                            l.violation("C19:round-trip/AuditBlob", format!("audit blob does not decode: {err:?}"), json!({"name": name}));
                            return;
                        }
                    }
                    // hostile blob data
                    let muts = byte_mutants(rng, &blob.data, &prev_bytes, true);
                    for (class, b) in muts.into_iter().take(if quick { 80 } else { 300 }) {
                        l.count("hostile_decodes", 1);
                        l.eval(1);
                        let hostile = AuditBlob { name: blob.name, data: b.clone() };
                        let r = guarded(l, "C19:", "decoding an AuditBlob", |_| hostile.decode());
                        let Some(r) = r else { return };
                        let outcome = match r {
                            Err(_) => "decode-error",
                            Ok((ep, ph, chh, proof)) => {
                                if verify_consecutive_append_only::<TC>(&proof, ph, chh, ep + 1).await.is_ok() {
                                    "decoded-and-same-result"
                                } else {
                                    "decoded-and-rejected"
                                }
                            }
                        };
                        l.case(format!("AuditBlob/{class}/{outcome}").as_bytes(), true);
                    }
                }
            }
        }
        for (class, b) in byte_mutants(rng, &abytes, &prev_bytes, true).into_iter().take(if quick { 80 } else { 300 }) {
            l.count("hostile_decodes", 1);
            l.eval(1);
            let r = guarded(l, "C19:", "decoding an AppendOnlyProof", |_| adecode(&b));
            let Some(r) = r else { return };
            let outcome = match r {
                Err(_) => "decode-error",
                Ok(a2) => {
                    // never panics in the verifier either; same verdict class
                    if audit_verify::<TC>(hashes.clone(), a2).await.is_ok() {
                        "decoded-and-same-result"
                    } else {
                        "decoded-and-rejected"
                    }
                }
            };
            l.case(format!("AppendOnlyProof/{class}/{outcome}").as_bytes(), true);
        }
    }
    if cc.idx < 2 {
        l.sample(json!({"case": cc.id, "cfg": case.cfg.name(), "epochs": cur, "labels": labels.len(), "example_lookup_encoding_len": prev_bytes.len()}));
    }
}

fn blob_names(rng: &mut Rng, l: &mut Local) {
    let good = AuditBlobName { epoch: 54, previous_hash: [1u8; 32], current_hash: [2u8; 32] }.to_string();
    let mut cands: Vec<String> = vec![
        String::new(),
        "/".into(),
        "//".into(),
        "54".into(),
        "54/".into(),
        format!("54/{}", hex::encode([1u8; 32])),
        format!("x/{}/{}", hex::encode([1u8; 32]), hex::encode([2u8; 32])),
        format!("-1/{}/{}", hex::encode([1u8; 32]), hex::encode([2u8; 32])),
        format!("99999999999999999999999/{}/{}", hex::encode([1u8; 32]), hex::encode([2u8; 32])),
        format!("54/{}/{}", "zz".repeat(32), hex::encode([2u8; 32])),
        format!("54/{}/{}", hex::encode([1u8; 31]), hex::encode([2u8; 32])),
        format!("54/{}/{}", hex::encode([1u8; 33]), hex::encode([2u8; 32])),
        format!("54/{}/{}", &hex::encode([1u8; 32])[..63], hex::encode([2u8; 32])),
        format!("54/{}/{}/extra", hex::encode([1u8; 32]), hex::encode([2u8; 32])),
        format!(" 54/{}/{}", hex::encode([1u8; 32]), hex::encode([2u8; 32])),
        format!("54/{}/{}", hex::encode([1u8; 32]).to_uppercase(), hex::encode([2u8; 32])),
        "54/\u{1F600}/\u{1F600}".into(),
    ];
    for _ in 0..200 {
        let mut b = good.clone().into_bytes();
        let i = rng.usize_below(b.len());
        b[i] = (rng.below(95) + 32) as u8;
        cands.push(String::from_utf8_lossy(&b).to_string());
        let cut = rng.usize_below(good.len());
        cands.push(good[..cut].to_string());
    }
    for c in cands {
        l.eval(1);
        l.count("blob_names_tried", 1);
        let r = guarded(l, "C19:", "parsing an audit blob name", |_| AuditBlobName::try_from(c.as_str()));
        let Some(r) = r else { return };
        match r {
            Err(_) => l.case(b"AuditBlobName/rejected", true),
            Ok(n) => {
                // accepted names must re-render to an equivalent name
                let again = AuditBlobName::try_from(n.to_string().as_str());
                if again.ok() != Some(n) {
                    l.violation("C19:blob-name-unstable", "an accepted audit blob name does not re-parse to itself", json!({"name": c}));
                    return;
                }
                l.case(b"AuditBlobName/accepted", true);
            }
        }
    }
    let _: Result<AuditBlobName, _> = good.as_str().try_into();
}
