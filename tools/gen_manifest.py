#!/usr/bin/env python3
"""Regenerates /verif/MANIFEST.json from the table below (kept next to the checks so the manifest
is always valid and current).  Run: python3 tools/gen_manifest.py"""
import json, os, sys

ROOT = os.path.dirname(os.path.dirname(os.path.abspath(__file__)))

# id -> (category, technique, level text, level note, design ref)
CLAIMED = {
    "C01": ("exploration",
            "runtime monitor: reference model + independent root recomputation compared after every publish of generated histories",
            "Every publish of thousands of generated histories (both configurations, cached/uncached, several parallelism settings) is compared with a reference model of the directory and a from-scratch blake3 recomputation of the canonical trie root; held = no divergence on the histories executed.",
            "Trusts blake3, the VRF output (checked in C18) and my reading of the hashing spec in akd_core/src/lib.rs (cross-validated: it reproduces the code's roots on the unchanged tree). Histories bounded by the generator (<= 40 batches, universe <= 64, a few 1000-leaf batches).",
            "DESIGN.md 6/C01"),
    "C02": ("exploration",
            "runtime monitor: every label looked up after every epoch of generated histories, proof verified and result compared with a reference model",
            "After every epoch of generated histories (incl. hot-label histories crossing every power-of-two version) every label of the universe is looked up, verified with the public key against the returned epoch hash and compared with the model's (value, version, epoch); batch lookups compared per label; unpublished labels must be refused.",
            "Model of the specified publish semantics; published hashes tied to the reference by C01. Bounded by generator (versions <= 140, universe <= 24).",
            "DESIGN.md 6/C02"),
    "C03": ("exploration",
            "runtime monitor: key_history for every label/parameter after every epoch, verified and compared with the model's version list; marker arithmetic sweep",
            "For every published label and HistoryParams in {Complete, MostRecent(1,2,3,total-1,total,total+1,total+5)} after every epoch: proof must verify with the same parameter and yield the model's newest-first list; get_marker_versions swept over boundary u64 triples for panics/insane output.",
            "Model of the specified semantics; generator bounds (versions <= 140).",
            "DESIGN.md 6/C03"),
    "C04": ("exploration",
            "runtime monitor: audit + audit_verify for all epoch pairs against the hashes publish returned, incl. ranges ending before the latest epoch",
            "All pairs (s,e) after the last epoch and, for a third of histories, after every epoch; invalid ranges must be refused.",
            "Published hashes are those returned by publish (C01). Histories <= 40 epochs plus a few 2000-leaf cases.",
            "DESIGN.md 6/C04"),
    "C05": ("exploration",
            "adversarial prover over real tree nodes + ground-truth leaf set: completeness of honest proofs, soundness of every assembled candidate",
            "Trees built from harness-chosen labels (prefixes of every length); ~10^6 candidate proofs per quick run (every path node as anchor, off-path anchors, altered/swapped children, siblings, directions, hashes, labels, truncated paths, transplants); accepted => statement true in the ground truth.",
            "Collision resistance of blake3; attack classes are a finite structured family.",
            "DESIGN.md 6/C05"),
    "C06": ("exploration",
            "adversarial lookup-proof builder against honest directories; oracle: accepted => equals model.latest",
            "Classes A1-A8 (old version with freshness forged from every ancestor, altered fields, cross-label/version/epoch material, marker games, VRF swaps, single-point sub-proof mutations, claimed node labels with an altered bit length); honest proof must be accepted first.",
            "Honest roots per C01; finite attack family; no cryptographic reasoning.",
            "DESIGN.md 6/C06"),
    "C07": ("exploration",
            "adversarial history-proof builder against honest directories and a dishonest server (missing/late stale markers); oracle: accepted => equals the model's list",
            "Classes H1-H8 (+H1b: absence of an existing future marker shown for the same bits with a shorter bit length) incl. tombstones under both verifier modes; dishonest trees must make verification fail for histories covering the corrupted retirement.",
            "Finite attack family; F10 (tombstoned version-1 epoch unbound under AllowMissingValues) is a listed known finding.",
            "DESIGN.md 6/C07"),
    "C08": ("exploration",
            "exhaustive set-level conflict monitor over the real get_marker_versions, validated by replay with the real verifiers on dishonest trees",
            "Every (E,n,m[,s']) for E<=64 quick / <=512 (lookup) and <=256 (history) thorough, plus sampled tuples to 2^40; pairs with an empty present/absent conflict set can co-verify; real-tree replay confirms the set-level oracle coincides with the real verifiers.",
            "VRF uniqueness and collision resistance; F3 (lookup marker vs history skip list) is a listed known finding keyed by exact triples.",
            "DESIGN.md 6/C08"),
    "C09": ("exploration",
            "adversarial append-only proof builder from real nodes of a ground-truth tree; end hash obtained the way a dishonest server would; commitment set of the accepted end hash reconstructed",
            "Classes P1-P8 on single transitions plus list-level mutations (P5/P6) on real directory histories; accepted => every leaf of the start tree still committed unchanged.",
            "Collision resistance; finite attack family.",
            "DESIGN.md 6/C09"),
    "C10": ("fault_enumeration",
            "fault injection at the Database boundary: every storage operation index of the victim publish fails (one-shot/sticky), same-instance post-state, retry and follow-up compared with a fault-free twin",
            "For every op index k of the victim publish x {one-shot, sticky} x {Connection, Other} x {uncached, cached warm} x {sequential, parallel insertion, current-thread and multi-thread runtime}: Err returned, no open transaction, previous (epoch, hash), verifying proofs of the previous state only, retry equals the twin, follow-up equals the twin.",
            "Faults are whole-operation failures at the Database trait (partial commits are C11); bounded victim shapes (<= 24 entries, prefix <= 6 epochs).",
            "DESIGN.md 6/C10"),
    "C11": ("fault_enumeration",
            "crash-point enumeration: all subsets (r<=9) / many prefixes and random subsets of the captured commit batch applied to copies of the pre-commit database, fresh readers checked against the model",
            "Every effective publish of generated histories; fresh uncached and cached ReadOnlyDirectory at each crash state must serve the previous epoch completely and nothing of the unfinished one; complete commit serves the new epoch.",
            "Record-level atomicity and epoch record last (the documented storage contract); torn records out of scope.",
            "DESIGN.md 6/C11"),
    "C12": ("exploration",
            "deterministic schedule exploration at storage-operation granularity (DFS with preemption bound, random, PCT, replay) + multi-thread stress; sequential-specification oracle ordered by returned epochs",
            "2-3 concurrent publishes on clones; exhaustive for preemption bound 1 (quick) / 2 (thorough) per scenario; model+refhash oracle; audit against returned hashes.",
            "Single-thread schedules interleave only at storage operations and start gates; finer interleavings only through the stress runs (and TSan in thorough).",
            "DESIGN.md 6/C12"),
    "C13": ("exploration",
            "schedule exploration of readers vs publishes vs change poller (incl. responses in flight), lag runs and multi-thread stress; every Ok answer judged: pair published (first), proof verifies, result equals model",
            "Readers on a writer clone / cached RO / uncached RO; exhaustive bound-1 for every op kind x instance kind; random+PCT; lag 0,1,2,3,5; poll monotonicity from the poller's own storage reads.",
            "Errors are allowed answers; explicit StorageManager::flush_cache bypassing the directory lock is exploratory only.",
            "DESIGN.md 6/C13"),
    "C14": ("exploration",
            "differential transcripts: one history through random points of the parallelism x cache x runtime x restart x read-only matrix and through a second harness build without the preload/parallel-VRF features; leaf-order and sub-batch permutations compared node by node",
            "Canonical transcript after every effective epoch compared line by line with the baseline configuration; two builds compared by transcript digests; 16-40 insertion variants per leaf set.",
            "Sampled matrix points (12/28 per history), in-memory storage only.",
            "DESIGN.md 6/C14"),
    "C15": ("exploration",
            "shadow-database monitor: every read through the manager compared with the same read on a transaction-free manager over a shadow that received all writes; commit batch compared with the pending set",
            "Random op sequences over small key universes with all retrieval flags, cached and uncached; commit/rollback/second-begin semantics.",
            "Well-formed value states as the property states; commits always include the epoch record (as the directory does).",
            "DESIGN.md 6/C15"),
    "C16": ("exploration",
            "cache monitor: after every op every key read through the cached manager is compared with the raw database (or pending value); controlled read-fill schedules with exit gates; multi-thread single-writer interval check",
            "Sequences with rejected writes, expiry (2-5 ms lifetimes, real sleeps), memory-pressure eviction, flushes, transactions; all gate orders of 1 writer x 1-2 readers; 8-task concurrent run.",
            "All writes to the keys go through the one manager (external storage advances are followed by flush). Wall-clock only changes coverage (how often entries expire), never the verdict.",
            "DESIGN.md 6/C16"),
    "C17": ("exploration",
            "exhaustive comparison with a Vec<bool> model for all label pairs up to 10 bits, boundary sweep to 256 bits, set operations through the verif_hooks wrappers (sorted vs unsorted), tree shapes against the reference trie",
            "Exhaustive on the <=10-bit domain (exhaustive: true refers to that domain and to all multisets of <=4 labels of <=4 bits); sampled elsewhere.",
            "The configurations' empty-label sentinel is excluded from LCP expectations (special-cased on purpose); Eq/Ord only on canonical labels.",
            "DESIGN.md 6/C17"),
    "C18": ("exploration",
            "self-consistency and single-field negative testing of the VRF binding, every single-bit flip of proofs, end-to-end through lookup_verify/key_history_verify with right and wrong keys",
            "17 (quick) / 65 (thorough) keys x awkward labels x versions across u64 x both freshness values x both configurations.",
            "No cryptographic reasoning; Ed25519/SHA-512 crates trusted.",
            "DESIGN.md 6/C18"),
    "C19": ("exploration",
            "round-trip equality and verify-equivalence over a corpus of real proofs; hostile decoding (truncation, bit flips, splices, random bytes, message-level field deletion and out-of-range values) under catch_unwind",
            "Every lookup/history/append-only proof and component of 400 (quick) / 4000 (thorough) histories; ~5*10^5 hostile decodes per quick run; a decoded mutant that verifies must verify to the same result.",
            "protobuf crate trusted; wasm client path replaced by the same parse_from_bytes + try_into + verify sequence.",
            "DESIGN.md 6/C19"),
    "C20": ("exploration",
            "before/after transcript on the same instance around tombstone_value_states for every cut-off epoch, plus never-tombstoned twin for the publishes that follow",
            "All cut-offs for 1-3 labels per history; Default and AllowMissingValues verifier modes; cached and uncached; fresh instance over the tombstoned storage.",
            "'Tombstoned entry' = entry whose stored value actually changed (an honestly published empty value IS the tombstone byte string).",
            "DESIGN.md 6/C20"),
}



NOT_YET = {}

def main():
    props = [json.loads(l) for l in open(os.path.join(ROOT, "properties.jsonl"))]
    checks = []
    na = []
    for p in props:
        pid = p["id"]
        if pid in CLAIMED:
            cat, tech, text, note, ref = CLAIMED[pid]
            checks.append({
                "property_id": pid,
                "quick_cmd": f"./check {pid} quick",
                "thorough_cmd": f"./check {pid} thorough",
                "evidence_file": f"evidence/{pid}.json",
                "replay_cmd_template": f"./check {pid} --replay {{path}}",
                "engine": "vcheck",
                "level_claimed": {"category": cat, "text": text, "design_ref": ref},
                "level_note": note,
                "technique": tech,
            })
        else:
            na.append({"property_id": pid, "reason": NOT_YET.get(pid, "check not built yet in this revision of /verif (work in progress; the design in DESIGN.md section 6 applies)")})
    man = {
        "version": 1,
        "setup_cmd": "./setup.sh",
        "hooks": {
            "guard": "cargo feature akd/verif_hooks",
            "enable": "the harness crate (/verif/harness/Cargo.toml) enables the feature on its path dependency on /repo/akd; no RUSTFLAGS needed",
            "baseline_off_cmd": "cd /repo && cargo nextest run --workspace --no-fail-fast --tool-config-file pb:/w/lib/nextest.toml --profile pb --test-threads 8 --offline || cargo test --workspace --no-fail-fast --offline",
            "source_commits": HOOK_COMMITS,
            "add_only": True,
        },
        "engines": [{
            "name": "vcheck",
            "path": "harness/",
            "serves_properties": sorted(CLAIMED.keys()),
            "kind_free_text": "Rust harness running the real akd code (path dependency on /repo) under generated, hostile, fault-injected and schedule-controlled workloads with reference-model, soundness, differential and history oracles; sanitizer re-runs in the thorough tier",
        }],
        "checks": checks,
        "not_applicable": na,
        "notes": "All checks: ./check <ID> quick|thorough; exit 0 held, 1 violation (VIOLATION line + replay file), 2 inconclusive. Thorough additionally runs sanitize.sh (dev-profile overflow checks, ThreadSanitizer, AddressSanitizer, Miri, valgrind memcheck sub-runs of the same monitors; DESIGN.md section 14). Known findings: known_findings.json. Seeded changes used to test the checks: seeded/<id>/ (DESIGN.md section 15).",
    }
    json.dump(man, open(os.path.join(ROOT, "MANIFEST.json"), "w"), indent=1)
    print("wrote MANIFEST.json with", len(checks), "checks,", len(na), "not_applicable")

HOOK_COMMITS = ["141cb13", "ecbdba5"]

if __name__ == "__main__":
    main()
