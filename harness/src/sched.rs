//! Deterministic scheduler for controlled concurrent runs on a `current_thread` tokio runtime with
//! paused time.  Client operations are spawned as tasks tagged with a task-local id; they stop at a
//! start gate and at every storage operation of the instrumented database (before it runs and —
//! optionally — again after it ran, modelling a response in flight).  The controller waits for
//! quiescence, then releases exactly one waiting task (or advances the clock by one poll period).

use crate::rng::Rng;
use crate::xdb::{Gate, OpInfo, TASK_ID};
use std::collections::{HashMap, HashSet};
use std::future::Future;
use std::sync::{Arc, Mutex};
use tokio::sync::oneshot;
use tokio::task::JoinHandle;

tokio::task_local! {
    /// the scheduler controlling the current client task (used by akd's verif_hooks pause points)
    static CUR_SCHED: Arc<Sched>;
}

/// Install the process-wide pause callback of akd's `verif_hooks`: a client task of a controlled run
/// parks at the named point like at a storage operation; any other task passes straight through.
pub fn install_pause_hook() {
    let f: akd::verif_hooks::PauseFn = Arc::new(|point: &'static str| {
        Box::pin(async move {
            let task = crate::xdb::cur_task();
            if task == 0 {
                return;
            }
            if let Ok(s) = CUR_SCHED.try_with(|s| s.clone()) {
                if s.pause_points {
                    s.park(task, format!("pause:{point}")).await;
                }
            }
        })
    });
    akd::verif_hooks::set_pause(Some(f));
}

/// pseudo task id of the action "advance the paused clock by one period"
pub const CLOCK: u32 = u32::MAX;
const SETTLE_ROUNDS: u32 = 40;

#[derive(Default)]
struct State {
    waiting: HashMap<u32, (String, oneshot::Sender<()>)>,
    progress: u64,
    finished: HashSet<u32>,
}

pub struct Sched {
    st: Mutex<State>,
    exit_gates: bool,
    pause_points: bool,
}

impl Sched {
    async fn park(&self, task: u32, desc: String) {
        let rx = {
            let mut st = self.st.lock().unwrap();
            let (tx, rx) = oneshot::channel();
            st.waiting.insert(task, (desc, tx));
            st.progress += 1;
            rx
        };
        let _ = rx.await;
    }
    fn finish(&self, task: u32) {
        let mut st = self.st.lock().unwrap();
        st.finished.insert(task);
        st.progress += 1;
    }
    fn progress(&self) -> u64 {
        self.st.lock().unwrap().progress
    }
}

#[async_trait::async_trait]
impl Gate for Sched {
    async fn before(&self, info: &OpInfo) {
        if info.task != 0 {
            self.park(info.task, format!("{}:{}", info.kind.name(), info.what)).await;
        }
    }
    async fn after(&self, info: &OpInfo) {
        if self.exit_gates && info.task != 0 {
            self.park(info.task, format!("ret:{}:{}", info.kind.name(), info.what)).await;
        }
    }
}

pub trait Strategy {
    /// `options` = enabled task ids, the previously released task first if it is still enabled.
    /// `can_continue` = options[0] is the previously released task. Returns an index into options.
    fn choose(&mut self, step: usize, options: &[u32], can_continue: bool) -> usize;
}

pub struct RandomStrategy<'a>(pub &'a mut Rng);

impl<'a> Strategy for RandomStrategy<'a> {
    fn choose(&mut self, _step: usize, options: &[u32], _c: bool) -> usize {
        self.0.usize_below(options.len())
    }
}

/// PCT-style: random static priorities, lowered at `d` random change points
pub struct PctStrategy {
    prio: HashMap<u32, u64>,
    change_at: Vec<usize>,
    rng: Rng,
    low: u64,
}

impl PctStrategy {
    pub fn new(seed: u64, d: usize, expected_steps: usize) -> Self {
        let mut rng = Rng::new(seed);
        let change_at = (0..d).map(|_| rng.usize_below(expected_steps.max(1))).collect();
        PctStrategy { prio: HashMap::new(), change_at, rng, low: 1_000 }
    }
}

impl Strategy for PctStrategy {
    fn choose(&mut self, step: usize, options: &[u32], _c: bool) -> usize {
        for o in options {
            if !self.prio.contains_key(o) {
                let p = 10_000 + self.rng.below(1_000_000);
                self.prio.insert(*o, p);
            }
        }
        let best = (0..options.len()).max_by_key(|i| self.prio[&options[*i]]).unwrap();
        if self.change_at.contains(&step) {
            self.low -= 1;
            self.prio.insert(options[best], self.low);
            return (0..options.len()).max_by_key(|i| self.prio[&options[*i]]).unwrap();
        }
        best
    }
}

#[derive(Clone, Debug)]
pub struct StepRec {
    pub n_options: usize,
    pub chosen: usize,
    pub can_continue: bool,
}

/// Stateless depth-first enumeration of all schedules with at most `bound` preemptions.
pub struct Dfs {
    pub bound: usize,
    prefix: Vec<usize>,
    rec: Vec<StepRec>,
    pub exhausted: bool,
    pub nondeterminism: u64,
}

impl Dfs {
    pub fn new(bound: usize) -> Self {
        Dfs { bound, prefix: vec![], rec: vec![], exhausted: false, nondeterminism: 0 }
    }
    /// call after each run; computes the next prefix. Returns false when the space is exhausted.
    pub fn advance(&mut self) -> bool {
        let rec = std::mem::take(&mut self.rec);
        // preemptions used before step i
        let mut used = vec![0usize; rec.len() + 1];
        for (i, r) in rec.iter().enumerate() {
            used[i + 1] = used[i] + if r.can_continue && r.chosen > 0 { 1 } else { 0 };
        }
        for i in (0..rec.len()).rev() {
            let r = &rec[i];
            let next = r.chosen + 1;
            if next < r.n_options {
                let cost = if r.can_continue { 1 } else { 0 };
                if used[i] + cost <= self.bound {
                    let mut p: Vec<usize> = rec[..i].iter().map(|x| x.chosen).collect();
                    p.push(next);
                    self.prefix = p;
                    return true;
                }
            }
        }
        self.exhausted = true;
        false
    }
}

impl Strategy for Dfs {
    fn choose(&mut self, step: usize, options: &[u32], can_continue: bool) -> usize {
        let mut c = if step < self.prefix.len() { self.prefix[step] } else { 0 };
        if c >= options.len() {
            self.nondeterminism += 1;
            c = 0;
        }
        self.rec.push(StepRec { n_options: options.len(), chosen: c, can_continue });
        c
    }
}

/// Replays a recorded schedule (list of task ids); falls back to option 0 when the recorded task is
/// not enabled.
pub struct Replay {
    pub schedule: Vec<u32>,
    pub mismatches: u64,
}

impl Strategy for Replay {
    fn choose(&mut self, step: usize, options: &[u32], _c: bool) -> usize {
        match self.schedule.get(step).and_then(|t| options.iter().position(|o| o == t)) {
            Some(i) => i,
            None => {
                if step < self.schedule.len() {
                    self.mismatches += 1;
                }
                0
            }
        }
    }
}

#[derive(Clone, Debug, Default)]
pub struct Outcome {
    /// released (task id, point description), in order
    pub trace: Vec<(u32, String)>,
    pub stuck: bool,
    pub steps: usize,
    pub clock_advances: usize,
}

impl Outcome {
    pub fn schedule(&self) -> Vec<u32> {
        self.trace.iter().map(|t| t.0).collect()
    }
    /// the trace at the granularity the scheduler controls: (task, kind of point).  The record order
    /// inside one commit batch comes from a randomly seeded hash map and is not part of it.
    pub fn shape(&self) -> Vec<(u32, String)> {
        self.trace
            .iter()
            .map(|(t, d)| {
                let mut it = d.split(':');
                let a = it.next().unwrap_or("");
                let k = if a == "ret" { format!("ret:{}", it.next().unwrap_or("")) } else { a.to_string() };
                (*t, k)
            })
            .collect()
    }
    /// hash of the interleaving at gate granularity (task id + kind of point)
    pub fn interleaving_hash(&self) -> u64 {
        let mut s = String::new();
        for (t, k) in self.shape() {
            s.push_str(&format!("{t}:{k};"));
        }
        crate::rng::fnv(s.as_bytes())
    }
    /// do the *calls* of tasks a and b overlap: was one of them started (released from its start
    /// gate) before the other passed its last scheduling point?  (A call that is started and then
    /// blocks — e.g. on a lock held by the other — still overlaps.)
    pub fn overlap(&self, a: u32, b: u32) -> bool {
        let pa: Vec<usize> = self.trace.iter().enumerate().filter(|(_, t)| t.0 == a).map(|(i, _)| i).collect();
        let pb: Vec<usize> = self.trace.iter().enumerate().filter(|(_, t)| t.0 == b).map(|(i, _)| i).collect();
        match (pa.first(), pa.last(), pb.first(), pb.last()) {
            (Some(a0), Some(a1), Some(b0), Some(b1)) => !(b1 < a0 || a1 < b0),
            _ => false,
        }
    }
}

pub struct Runner {
    pub sched: Arc<Sched>,
    handles: Vec<(u32, JoinHandle<()>)>,
    /// tasks that never finish on their own (change poller): aborted once all others are done
    daemons: HashSet<u32>,
    pub clock_period: Option<std::time::Duration>,
    pub max_clock_advances: usize,
    pub max_steps: usize,
}

impl Runner {
    pub fn new(exit_gates: bool) -> Self {
        Runner {
            sched: Arc::new(Sched { st: Mutex::new(State::default()), exit_gates, pause_points: true }),
            handles: vec![],
            daemons: HashSet::new(),
            clock_period: None,
            max_clock_advances: 0,
            max_steps: 20_000,
        }
    }

    pub fn gate(&self) -> Arc<dyn Gate> {
        self.sched.clone()
    }

    /// spawn a client operation; it parks at its start gate until released
    pub fn client<F>(&mut self, id: u32, fut: F)
    where
        F: Future<Output = ()> + Send + 'static,
    {
        let sched = self.sched.clone();
        let s2 = sched.clone();
        let h = tokio::spawn(CUR_SCHED.scope(
            s2,
            TASK_ID.scope(id, async move {
                sched.park(id, "start".to_string()).await;
                fut.await;
                sched.finish(id);
            }),
        ));
        self.handles.push((id, h));
    }

    pub fn daemon<F>(&mut self, id: u32, fut: F)
    where
        F: Future<Output = ()> + Send + 'static,
    {
        self.daemons.insert(id);
        self.client(id, fut);
    }

    async fn settle(&self) {
        let mut stable = 0;
        let mut last = self.sched.progress() + self.handles.iter().filter(|h| h.1.is_finished()).count() as u64;
        while stable < SETTLE_ROUNDS {
            tokio::task::yield_now().await;
            let p = self.sched.progress() + self.handles.iter().filter(|h| h.1.is_finished()).count() as u64;
            if p != last {
                stable = 0;
                last = p;
            } else {
                stable += 1;
            }
        }
    }

    fn done(&self, id: u32) -> bool {
        self.sched.st.lock().unwrap().finished.contains(&id) || self.handles.iter().any(|h| h.0 == id && h.1.is_finished())
    }

    pub async fn drive(&mut self, strategy: &mut dyn Strategy) -> Outcome {
        let mut out = Outcome::default();
        let mut last: Option<u32> = None;
        loop {
            self.settle().await;
            let all_clients_done = self.handles.iter().filter(|h| !self.daemons.contains(&h.0)).all(|h| self.done(h.0));
            if all_clients_done {
                break;
            }
            let mut enabled: Vec<u32> = self.sched.st.lock().unwrap().waiting.keys().copied().collect();
            enabled.sort();
            // the clock may be advanced while some daemon is neither parked nor finished (it sleeps)
            let daemon_sleeping = self.daemons.iter().any(|d| !self.done(*d) && !enabled.contains(d));
            if self.clock_period.is_some() && daemon_sleeping && out.clock_advances < self.max_clock_advances {
                enabled.push(CLOCK);
            }
            if enabled.is_empty() {
                out.stuck = true;
                break;
            }
            let can_continue = match last {
                Some(t) => {
                    if let Some(pos) = enabled.iter().position(|x| *x == t) {
                        enabled.remove(pos);
                        enabled.insert(0, t);
                        true
                    } else {
                        false
                    }
                }
                None => false,
            };
            let idx = strategy.choose(out.steps, &enabled, can_continue).min(enabled.len() - 1);
            let t = enabled[idx];
            if t == CLOCK {
                out.clock_advances += 1;
                out.trace.push((CLOCK, "advance-clock".into()));
                tokio::time::advance(self.clock_period.unwrap()).await;
            } else {
                let (desc, tx) = self.sched.st.lock().unwrap().waiting.remove(&t).unwrap();
                out.trace.push((t, desc));
                let _ = tx.send(());
            }
            last = Some(t);
            out.steps += 1;
            if out.steps >= self.max_steps {
                out.stuck = true;
                break;
            }
        }
        // stop daemons and anything still parked
        for (_, h) in &self.handles {
            h.abort();
        }
        for _ in 0..5 {
            tokio::task::yield_now().await;
        }
        out
    }
}

/// run a scenario on a fresh current-thread runtime with a paused clock
pub fn in_runtime<F: Future>(f: F) -> F::Output {
    let rt = tokio::runtime::Builder::new_current_thread()
        .enable_time()
        .start_paused(true)
        .build()
        .expect("runtime");
    rt.block_on(f)
}
