//! C15 — reads inside a storage transaction see pending writes exactly as after commit.
//! Shadow-database monitor: every write is also applied to a shadow database; every read through the
//! manager is compared with the same read on an uncached, transaction-free manager over the shadow.

use crate::common::*;
use crate::mon::*;
use crate::rng::Rng;
use crate::xdb::XDb;
use serde_json::{json, Value};
use std::collections::{BTreeMap, HashMap};
use std::sync::atomic::Ordering;

const USERS: [&[u8]; 3] = [b"alice", b"bob", b"carol"];

pub fn run(ctx: &Ctx) -> i32 {
    let mon = Mon::new();
    let miri = ctx.mode.as_deref() == Some("miri");
    let small = ctx.mode.as_deref() == Some("small") || miri;
    let n = if miri { 12 } else if small { 256 } else { ctx.tier.pick(200_000, 8_000_000) };
    let chunks = if miri { 1u64 } else if small { 4u64 } else { 64u64 };
    par_cases(ctx, &mon, "seq", chunks, |cc, rng, l| {
        for i in 0..(n / chunks) {
            let mut r2 = Rng::derive(rng.next_u64(), "c15", i);
            block_on(run_sequence(cc, &mut r2, l, i));
        }
    });
    finish(
        ctx,
        &mon,
        Spec::new(
            "exploration",
            "random operation sequences (5-40 ops) over 3 users x epochs 1-6, 4 node keys and the epoch record: set / batch_set / get / batch_get / get_user_data / get_user_state and get_user_state_versions with each retrieval flag (parameters around existing epochs and versions +-1) / begin / commit / rollback / tombstone, well-formed data (versions increase with epochs, rewriting (user, epoch) keeps its version), cached and uncached managers. Every read is compared with the same read on a transaction-free uncached manager over a shadow database that received all writes immediately; commit must hand the database exactly the pending records (last write per key) with the epoch record last; rollback must discard them; a second begin must be refused. distinct = (read kind, flag, provenance of the answer: db only / pending only / both, pending newer / both, db newer); non-trivial = read inside a transaction with pending writes for the user/key",
        )
        .need("sequences", if miri { 10 } else if small { 100 } else { ctx.tier.pick(10_000, 500_000) })
        .need("reads_inside_transaction_compared", if miri { 5 } else if small { 100 } else { ctx.tier.pick(50_000, 2_000_000) })
        .need("commits_checked", if miri { 1 } else if small { 10 } else { ctx.tier.pick(5_000, 200_000) })
        .need("rollbacks_checked", if miri { 0 } else if small { 5 } else { ctx.tier.pick(2_000, 100_000) }),
    )
}

fn vs(user: &[u8], epoch: u64, version: u64, value: &[u8]) -> ValueState {
    let mut lv = [0u8; 32];
    lv[0] = user[0];
    lv[1] = version as u8;
    DbRecord::build_user_state(user.to_vec(), value.to_vec(), version, 256, lv, epoch)
}

fn node(k: u8, tag: u64) -> TreeNodeWithPreviousValue {
    let mut lv = [0u8; 32];
    lv[0] = k << 6;
    let label = NodeLabel::new(lv, 2);
    let mut h = [0u8; 32];
    h[..8].copy_from_slice(&tag.to_be_bytes());
    let tn = TreeNode {
        label,
        last_epoch: tag % 7,
        min_descendant_epoch: 1,
        parent: NodeLabel::root(),
        node_type: TreeNodeType::Interior,
        left_child: None,
        right_child: None,
        hash: AzksValue(h),
    };
    TreeNodeWithPreviousValue { label, latest_node: tn, previous_node: None }
}

fn rec_id(r: &DbRecord) -> Vec<u8> {
    r.get_full_binary_id()
}

fn flag_name(f: &ValueStateRetrievalFlag) -> &'static str {
    match f {
        ValueStateRetrievalFlag::SpecificVersion(_) => "SpecificVersion",
        ValueStateRetrievalFlag::SpecificEpoch(_) => "SpecificEpoch",
        ValueStateRetrievalFlag::LeqEpoch(_) => "LeqEpoch",
        ValueStateRetrievalFlag::MaxEpoch => "MaxEpoch",
        ValueStateRetrievalFlag::MinEpoch => "MinEpoch",
    }
}

struct St {
    /// committed (epoch -> version) per user and pending (epoch -> version) per user
    committed: HashMap<Vec<u8>, BTreeMap<u64, u64>>,
    pending: HashMap<Vec<u8>, BTreeMap<u64, u64>>,
    pending_keys: BTreeMap<Vec<u8>, DbRecord>,
    in_txn: bool,
    counter: u64,
}

impl St {
    fn all(&self, user: &[u8]) -> BTreeMap<u64, u64> {
        let mut m = self.committed.get(user).cloned().unwrap_or_default();
        if let Some(p) = self.pending.get(user) {
            m.extend(p.iter().map(|(a, b)| (*a, *b)));
        }
        m
    }
    /// a well-formed new value state for `user`: append a new epoch, or rewrite an existing one
    fn gen_vs(&mut self, rng: &mut Rng, user: &[u8]) -> ValueState {
        let all = self.all(user);
        self.counter += 1;
        let val = if rng.chance(1, 12) { vec![] } else { format!("v{}", self.counter).into_bytes() };
        let max_e = all.keys().max().copied().unwrap_or(0);
        if !all.is_empty() && (rng.chance(1, 4) || max_e >= 6) {
            let (e, v) = all.iter().nth(rng.usize_below(all.len())).map(|(a, b)| (*a, *b)).unwrap();
            vs(user, e, v, &val)
        } else {
            let e = rng.range(max_e + 1, (max_e + 2).min(6).max(max_e + 1));
            let v = all.values().max().copied().unwrap_or(0) + 1;
            vs(user, e, v, &val)
        }
    }
    fn provenance(&self, user: &[u8]) -> &'static str {
        let c = self.committed.get(user).map(|m| !m.is_empty()).unwrap_or(false);
        let p = self.in_txn && self.pending.get(user).map(|m| !m.is_empty()).unwrap_or(false);
        match (c, p) {
            (false, false) => "none",
            (true, false) => "db-only",
            (false, true) => "pending-only",
            (true, true) => {
                let cm = self.committed[user].keys().max().unwrap();
                let pm = self.pending[user].keys().max().unwrap();
                if pm >= cm {
                    "both-pending-newer"
                } else {
                    "both-db-newer"
                }
            }
        }
    }
}

fn norm_states(r: Result<KeyData, StorageError>) -> Result<Vec<ValueState>, String> {
    match r {
        Ok(k) => {
            let mut v = k.states;
            v.sort_by_key(|s| s.epoch);
            Ok(v)
        }
        Err(StorageError::NotFound(_)) => Ok(vec![]),
        Err(e) => Err(format!("{e:?}")),
    }
}

fn norm_one<T: std::fmt::Debug>(r: Result<T, StorageError>) -> Result<Option<T>, String> {
    match r {
        Ok(x) => Ok(Some(x)),
        Err(StorageError::NotFound(_)) => Ok(None),
        Err(e) => Err(format!("{e:?}")),
    }
}

async fn run_sequence(cc: &CaseCtx, rng: &mut Rng, l: &mut Local, seq_idx: u64) {
    let db = XDb::new();
    let cached = rng.chance(1, 2);
    let mgr = if cached { StorageManager::new(db.clone(), None, None, None) } else { StorageManager::new_no_cache(db.clone()) };
    let mut shadow = AsyncInMemoryDatabase::new();
    let mut smgr = StorageManager::new_no_cache(shadow.clone());
    let mut st = St { committed: HashMap::new(), pending: HashMap::new(), pending_keys: BTreeMap::new(), in_txn: false, counter: 0 };
    let n_ops = rng.range(5, 40);
    let mut ops_log: Vec<String> = vec![];
    l.eval(1);
    l.count("sequences", 1);
    db.ctl.capture_commits.store(true, Ordering::SeqCst);

    macro_rules! bail {
        ($sig:expr, $msg:expr) => {{
            l.violation(
                format!("C15:{}", $sig),
                $msg,
                json!({"cached": cached, "sequence_index": seq_idx, "ops": ops_log, "case": cc.id}),
            );
            return;
        }};
    }

    for _ in 0..n_ops {
        let choice = rng.below(100);
        match choice {
            // ---- begin
            0..=9 => {
                let got = mgr.begin_transaction();
                ops_log.push(format!("begin -> {got}"));
                if st.in_txn && got {
                    bail!("second-begin-accepted", "begin_transaction returned true while a transaction was open".to_string());
                }
                if !st.in_txn && !got {
                    bail!("begin-refused", "begin_transaction returned false although no transaction was open".to_string());
                }
                st.in_txn = true;
            }
            // ---- commit
            10..=16 => {
                if !st.in_txn {
                    continue;
                }
                // the directory always writes the epoch record before committing
                if !st.pending_keys.values().any(|r| matches!(r, DbRecord::Azks(_))) {
                    st.counter += 1;
                    let rec = DbRecord::Azks(DbRecord::build_azks(st.counter, st.counter));
                    mgr.set(rec.clone()).await.unwrap();
                    shadow.set(rec.clone()).await.unwrap();
                    st.pending_keys.insert(rec_id(&rec), rec);
                    ops_log.push("set Azks (forced before commit)".into());
                }
                let _ = db.ctl.take_commits();
                let r = mgr.commit_transaction().await;
                ops_log.push(format!("commit -> {:?}", r.as_ref().map(|_| ()).map_err(|e| format!("{e:?}"))));
                if r.is_err() {
                    bail!("commit-failed", format!("commit of a well-formed transaction failed: {:?}", r.err()));
                }
                let commits = db.ctl.take_commits();
                let handed: Vec<DbRecord> = commits.into_iter().flatten().collect();
                let mut want: Vec<&DbRecord> = st.pending_keys.values().collect();
                want.sort_by_key(|r| rec_id(r));
                let mut got: Vec<&DbRecord> = handed.iter().collect();
                got.sort_by_key(|r| rec_id(r));
                l.count("commits_checked", 1);
                if want != got {
                    bail!("commit-batch-differs-from-pending", format!("commit handed the database {} records but {} distinct keys were pending (or contents differ)", got.len(), want.len()));
                }
                if !matches!(handed.last(), Some(DbRecord::Azks(_))) {
                    bail!("commit-epoch-record-not-last", "the epoch record is not the last record of the commit batch".to_string());
                }
                if mgr.is_transaction_active() {
                    bail!("transaction-open-after-commit", "transaction still active after commit".to_string());
                }
                // real == shadow
                let mut a = db.inner.batch_get_all_direct().await.unwrap();
                let mut b = shadow.batch_get_all_direct().await.unwrap();
                a.sort_by_key(rec_id);
                b.sort_by_key(rec_id);
                if a != b {
                    bail!("database-differs-from-shadow-after-commit", "after commit the database content differs from the shadow that received every write".to_string());
                }
                for (u, m) in st.pending.drain() {
                    st.committed.entry(u).or_default().extend(m);
                }
                st.pending_keys.clear();
                st.in_txn = false;
            }
            // ---- rollback
            17..=21 => {
                if !st.in_txn {
                    continue;
                }
                let r = mgr.rollback_transaction();
                ops_log.push("rollback".into());
                if r.is_err() || mgr.is_transaction_active() {
                    bail!("rollback-failed", "rollback failed or left the transaction open".to_string());
                }
                l.count("rollbacks_checked", 1);
                shadow = deep_copy(&db.inner).await;
                smgr = StorageManager::new_no_cache(shadow.clone());
                st.pending.clear();
                st.pending_keys.clear();
                st.in_txn = false;
            }
            // ---- writes
            22..=44 => {
                let mut recs: Vec<DbRecord> = vec![];
                let k = if rng.chance(1, 2) { 1 } else { rng.range(2, 4) };
                for _ in 0..k {
                    let r = match rng.below(10) {
                        0..=6 => {
                            let u = *rng.pick(&USERS);
                            let v = st.gen_vs(rng, u);
                            let tgt = if st.in_txn { &mut st.pending } else { &mut st.committed };
                            tgt.entry(u.to_vec()).or_default().insert(v.epoch, v.version);
                            DbRecord::ValueState(v)
                        }
                        7..=8 => {
                            st.counter += 1;
                            DbRecord::TreeNode(node(rng.below(4) as u8, st.counter))
                        }
                        _ => {
                            st.counter += 1;
                            DbRecord::Azks(DbRecord::build_azks(st.counter, st.counter))
                        }
                    };
                    recs.push(r);
                }
                ops_log.push(format!("write {} records (txn={})", recs.len(), st.in_txn));
                let r = if recs.len() == 1 { mgr.set(recs[0].clone()).await } else { mgr.batch_set(recs.clone()).await };
                if r.is_err() {
                    bail!("write-failed", "write failed".to_string());
                }
                for r in &recs {
                    shadow.set(r.clone()).await.unwrap();
                    if st.in_txn {
                        st.pending_keys.insert(rec_id(r), r.clone());
                    }
                }
            }
            // ---- tombstone (rewrites (user, epoch) keeping versions)
            45..=47 => {
                let u = *rng.pick(&USERS);
                let e = rng.range(0, 6);
                ops_log.push(format!("tombstone {} <= {e}", String::from_utf8_lossy(u)));
                // compute what the shadow would get: same operation on the shadow manager
                let before: Vec<ValueState> = norm_states(smgr.get_user_data(&AkdLabel(u.to_vec())).await).unwrap_or_default();
                let r = mgr.tombstone_value_states(&AkdLabel(u.to_vec()), e).await;
                match r {
                    Ok(()) | Err(StorageError::NotFound(_)) => {}
                    Err(err) => bail!("tombstone-failed", format!("tombstone failed: {err:?}")),
                }
                for s in before {
                    if s.epoch <= e && !s.value.0.is_empty() {
                        let t = ValueState { value: AkdValue(vec![]), ..s.clone() };
                        let rec = DbRecord::ValueState(t);
                        shadow.set(rec.clone()).await.unwrap();
                        if st.in_txn {
                            st.pending.entry(u.to_vec()).or_default().insert(s.epoch, s.version);
                            st.pending_keys.insert(rec_id(&rec), rec);
                        }
                    }
                }
            }
            // ---- reads
            _ => {
                let u = *rng.pick(&USERS);
                let prov = st.provenance(u);
                let inside = st.in_txn;
                let all = st.all(u);
                let pick_epoch = |rng: &mut Rng| -> u64 {
                    if all.is_empty() || rng.chance(1, 4) {
                        rng.range(0, 7)
                    } else {
                        let e = *all.keys().nth(rng.usize_below(all.len())).unwrap();
                        (e as i64 + rng.range(0, 2) as i64 - 1).max(0) as u64
                    }
                };
                let pick_version = |rng: &mut Rng| -> u64 {
                    if all.is_empty() || rng.chance(1, 4) {
                        rng.range(0, 7)
                    } else {
                        let v = *all.values().nth(rng.usize_below(all.len())).unwrap();
                        (v as i64 + rng.range(0, 2) as i64 - 1).max(0) as u64
                    }
                };
                let flag = match rng.below(5) {
                    0 => ValueStateRetrievalFlag::SpecificVersion(pick_version(rng)),
                    1 => ValueStateRetrievalFlag::SpecificEpoch(pick_epoch(rng)),
                    2 => ValueStateRetrievalFlag::LeqEpoch(pick_epoch(rng)),
                    3 => ValueStateRetrievalFlag::MaxEpoch,
                    _ => ValueStateRetrievalFlag::MinEpoch,
                };
                let label = AkdLabel(u.to_vec());
                let kind;
                let (got, want): (Value, Value);
                match rng.below(6) {
                    0 => {
                        kind = "get_user_data".to_string();
                        got = json!(norm_states(mgr.get_user_data(&label).await).map(|v| format!("{v:?}")));
                        want = json!(norm_states(smgr.get_user_data(&label).await).map(|v| format!("{v:?}")));
                    }
                    1 | 2 => {
                        kind = format!("get_user_state/{}", flag_name(&flag));
                        got = json!(norm_one(mgr.get_user_state(&label, flag).await).map(|v| format!("{v:?}")));
                        want = json!(norm_one(smgr.get_user_state(&label, flag).await).map(|v| format!("{v:?}")));
                    }
                    3 => {
                        kind = format!("get_user_state_versions/{}", flag_name(&flag));
                        let users: Vec<AkdLabel> = USERS.iter().map(|x| AkdLabel(x.to_vec())).collect();
                        let f = |r: Result<HashMap<AkdLabel, (u64, AkdValue)>, StorageError>| {
                            r.map(|m| {
                                let mut v: Vec<_> = m.into_iter().map(|(k, (a, b))| (k.0, a, b.0)).collect();
                                v.sort();
                                format!("{v:?}")
                            })
                            .map_err(|e| format!("{e:?}"))
                        };
                        got = json!(f(mgr.get_user_state_versions(&users, flag).await));
                        want = json!(f(smgr.get_user_state_versions(&users, flag).await));
                    }
                    4 => {
                        // single record get: value state / node / epoch record
                        match rng.below(3) {
                            0 => {
                                kind = "get/ValueState".to_string();
                                let key = akd::storage::types::ValueStateKey(u.to_vec(), pick_epoch(rng));
                                got = json!(norm_one(mgr.get::<ValueState>(&key).await).map(|v| format!("{v:?}")));
                                want = json!(norm_one(smgr.get::<ValueState>(&key).await).map(|v| format!("{v:?}")));
                            }
                            1 => {
                                kind = "get/TreeNode".to_string();
                                let key = NodeKey(node(rng.below(4) as u8, 0).label);
                                got = json!(norm_one(mgr.get::<TreeNodeWithPreviousValue>(&key).await).map(|v| format!("{v:?}")));
                                want = json!(norm_one(smgr.get::<TreeNodeWithPreviousValue>(&key).await).map(|v| format!("{v:?}")));
                            }
                            _ => {
                                kind = "get/Azks".to_string();
                                got = json!(norm_one(mgr.get::<Azks>(&akd::append_only_zks::DEFAULT_AZKS_KEY).await).map(|v| format!("{v:?}")));
                                want = json!(norm_one(smgr.get::<Azks>(&akd::append_only_zks::DEFAULT_AZKS_KEY).await).map(|v| format!("{v:?}")));
                            }
                        }
                    }
                    _ => {
                        kind = "batch_get/TreeNode".to_string();
                        let keys: Vec<NodeKey> = (0..4).filter(|_| rng.chance(2, 3)).map(|k| NodeKey(node(k, 0).label)).collect();
                        let f = |r: Result<Vec<DbRecord>, StorageError>| {
                            r.map(|mut v| {
                                v.sort_by_key(rec_id);
                                format!("{v:?}")
                            })
                            .map_err(|e| format!("{e:?}"))
                        };
                        got = json!(f(mgr.batch_get::<TreeNodeWithPreviousValue>(&keys).await));
                        want = json!(f(smgr.batch_get::<TreeNodeWithPreviousValue>(&keys).await));
                    }
                }
                ops_log.push(format!("read {kind} {flag:?} user={} (txn={inside})", String::from_utf8_lossy(u)));
                l.count("reads_compared", 1);
                if inside {
                    l.count("reads_inside_transaction_compared", 1);
                }
                let nontrivial = inside && (prov.starts_with("both") || prov == "pending-only");
                l.case(format!("{kind}/{prov}/{}", if inside { "in-txn" } else { "outside" }).as_bytes(), nontrivial);
                if got != want {
                    let kind_sig = kind.clone();
                    l.violation(
                        format!("C15:read-differs/{kind_sig}/{prov}"),
                        format!("{kind} (flag {flag:?}) {} returned {got} but the same read after commit returns {want}", if inside { "inside the transaction" } else { "outside a transaction" }),
                        json!({"cached": cached, "provenance": prov, "read": kind, "flag": format!("{flag:?}"), "user": String::from_utf8_lossy(u),
                               "got": got, "want_as_after_commit": want, "ops": ops_log, "case": cc.id, "sequence_index": seq_idx}),
                    );
                    return;
                }
            }
        }
    }
    if seq_idx == 0 && cc.idx < 2 {
        l.sample(json!({"case": cc.id, "cached": cached, "ops": ops_log}));
    }
}
