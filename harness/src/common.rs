//! Shared aliases and small helpers around the akd public API.

pub use akd::append_only_zks::{Azks, AzksParallelismConfig, AzksParallelismOption, InsertMode};
pub use akd::directory::{Directory, ReadOnlyDirectory};
pub use akd::ecvrf::{VRFKeyStorage, VrfError};
pub use akd::errors::{AkdError, StorageError};
pub use akd::storage::manager::StorageManager;
pub use akd::storage::memory::AsyncInMemoryDatabase;
pub use akd::storage::types::{DbRecord, KeyData, ValueState, ValueStateKey, ValueStateRetrievalFlag};
pub use akd::storage::{Database, DbSetState, Storable, StorageUtil};
pub use akd::tree_node::{NodeKey, TreeNode, TreeNodeType, TreeNodeWithPreviousValue};
pub use akd::{
    AkdLabel, AkdValue, AppendOnlyProof, AzksElement, AzksValue, Digest, Direction, EpochHash,
    HistoryParams, HistoryProof, HistoryVerificationParams, LookupProof, MembershipProof, NodeLabel,
    NonMembershipProof, SiblingProof, SingleAppendOnlyProof, UpdateProof, VerifyResult,
    VersionFreshness,
};
pub use akd_core::configuration::Configuration;
pub use akd_core::{ExampleLabel, ExperimentalConfiguration, WhatsAppV1Configuration};

pub type Wa = WhatsAppV1Configuration;
pub type Exp = ExperimentalConfiguration<ExampleLabel>;

pub const HARD_CODED_KEY_HEX: &str = "c9afa9d845ba75166b5c215767b1d6934e50c3db36e89b127b8a622b120f6721";

/// Which of the two hashing configurations a case runs under.
#[derive(Clone, Copy, Debug, PartialEq, Eq, Hash)]
pub enum Cfg {
    Wa,
    Exp,
}

impl Cfg {
    pub fn name(&self) -> &'static str {
        match self {
            Cfg::Wa => "whatsapp_v1",
            Cfg::Exp => "experimental",
        }
    }
}

/// Run a generic block once with `TC` bound to the configuration type selected at run time.
#[macro_export]
macro_rules! with_cfg {
    ($cfg:expr, $tc:ident, $body:block) => {
        match $cfg {
            $crate::common::Cfg::Wa => {
                type $tc = $crate::common::Wa;
                $body
            }
            $crate::common::Cfg::Exp => {
                type $tc = $crate::common::Exp;
                $body
            }
        }
    };
}

/// A VRF key storage holding an arbitrary 32-byte secret key.
#[derive(Clone)]
pub struct KeyVrf(pub std::sync::Arc<Vec<u8>>);

impl KeyVrf {
    pub fn hard_coded() -> Self {
        KeyVrf(std::sync::Arc::new(hex::decode(HARD_CODED_KEY_HEX).unwrap()))
    }
    pub fn from_bytes(b: &[u8]) -> Self {
        KeyVrf(std::sync::Arc::new(b.to_vec()))
    }
}

#[async_trait::async_trait]
impl VRFKeyStorage for KeyVrf {
    async fn retrieve(&self) -> Result<Vec<u8>, VrfError> {
        Ok(self.0.as_ref().clone())
    }
}

/// A VRF key storage whose batch derivation (`get_node_labels`) answers in ANOTHER ORDER than it was
/// asked (reversed, rotated or seeded shuffle) - as a remote VRF service with varying latency, or the
/// stock parallel implementation on a multi-thread runtime, may.  Every returned pair is correct.
#[derive(Clone)]
pub struct ShufVrf(pub KeyVrf, pub u64);

#[async_trait::async_trait]
impl VRFKeyStorage for ShufVrf {
    async fn retrieve(&self) -> Result<Vec<u8>, VrfError> {
        self.0.retrieve().await
    }
    async fn get_node_labels<TC: Configuration>(
        &self,
        labels: &[(AkdLabel, VersionFreshness, u64, AkdValue)],
    ) -> Result<Vec<((AkdLabel, VersionFreshness, u64, AkdValue), NodeLabel)>, VrfError> {
        let mut out = vec![];
        for (l, f, v, val) in labels {
            let nl = self.0.get_node_label::<TC>(l, *f, *v).await?;
            out.push(((l.clone(), *f, *v, val.clone()), nl));
        }
        match self.1 % 3 {
            0 => out.reverse(),
            1 => {
                if !out.is_empty() {
                    let k = (self.1 as usize / 3) % out.len();
                    out.rotate_left(k);
                }
            }
            _ => {
                let mut r = crate::rng::Rng::derive(self.1, "shufvrf", out.len() as u64);
                r.shuffle(&mut out);
            }
        }
        Ok(out)
    }
}

pub fn hx(b: &[u8]) -> String {
    if b.len() <= 12 {
        hex::encode(b)
    } else {
        format!("{}..({}B)", hex::encode(&b[..8]), b.len())
    }
}

/// short but collision-free (for practical purposes) rendering of a byte string
pub fn hxu(b: &[u8]) -> String {
    format!("{}#{:08x}", hx(b), crate::rng::fnv(b) as u32)
}

pub fn label_str(l: &NodeLabel) -> String {
    format!("{}/{}", hex::encode(&l.label_val[..((l.label_len as usize + 7) / 8).min(32).max(1)]), l.label_len)
}

pub fn err_kind(e: &AkdError) -> String {
    match e {
        AkdError::TreeNode(_) => "TreeNode".into(),
        AkdError::Directory(d) => format!("Directory::{}", dir_err_kind(d)),
        AkdError::AzksErr(_) => "Azks".into(),
        AkdError::Vrf(_) => "Vrf".into(),
        AkdError::Storage(s) => format!("Storage::{}", storage_err_kind(s)),
        AkdError::AuditErr(_) => "Audit".into(),
        AkdError::Parallelism(_) => "Parallelism".into(),
        AkdError::TestErr(_) => "Test".into(),
    }
}

fn dir_err_kind(d: &akd::errors::DirectoryError) -> &'static str {
    use akd::errors::DirectoryError::*;
    match d {
        Verification(_) => "Verification",
        InvalidEpoch(_) => "InvalidEpoch",
        ReadOnlyDirectory(_) => "ReadOnlyDirectory",
        Publish(_) => "Publish",
        InvalidVersion(_) => "InvalidVersion",
    }
}

pub fn storage_err_kind(s: &StorageError) -> &'static str {
    match s {
        StorageError::NotFound(_) => "NotFound",
        StorageError::Transaction(_) => "Transaction",
        StorageError::Connection(_) => "Connection",
        StorageError::Other(_) => "Other",
    }
}

/// Deep copy of an in-memory database through its public utility API.
pub async fn deep_copy(db: &AsyncInMemoryDatabase) -> AsyncInMemoryDatabase {
    let all = db.batch_get_all_direct().await.expect("dump");
    let fresh = AsyncInMemoryDatabase::new();
    if !all.is_empty() {
        fresh.batch_set(all, DbSetState::General).await.expect("copy");
    }
    fresh
}
