//! Seeded generator of publish histories, biased towards the places the code branches.

use crate::model::Batch;
use crate::rng::Rng;
use std::collections::HashMap;

#[derive(Clone, Copy, Debug, PartialEq, Eq)]
pub enum Flavor {
    Mixed,
    /// one label is updated (almost) every epoch so that its version crosses 2,3,4,5,8,9,16,17,...
    HotLabel,
    InsertOnly,
    /// first epoch inserts the whole universe, afterwards only updates
    UpdateOnly,
    /// values alternate A/B/A for the same labels
    Alternating,
    /// one label per epoch
    OnePerEpoch,
}

#[derive(Clone, Debug)]
pub struct GenOpts {
    pub universe: usize,
    pub batches: usize,
    pub max_batch: usize,
    pub flavor: Flavor,
    /// per-mille rates
    pub p_resubmit: u64,
    pub p_dup_batch: u64,
    pub p_empty_batch: u64,
    pub p_empty_value: u64,
    pub allow_big: bool,
}

impl GenOpts {
    pub fn random(rng: &mut Rng, max_universe: usize, max_batches: usize, max_batch: usize) -> Self {
        let flavor = match rng.below(10) {
            0 => Flavor::HotLabel,
            1 => Flavor::InsertOnly,
            2 => Flavor::UpdateOnly,
            3 => Flavor::Alternating,
            4 => Flavor::OnePerEpoch,
            _ => Flavor::Mixed,
        };
        GenOpts {
            universe: rng.range(2, max_universe.max(2) as u64) as usize,
            batches: rng.range(2, max_batches.max(2) as u64) as usize,
            max_batch: rng.range(1, max_batch.max(1) as u64) as usize,
            flavor,
            p_resubmit: 150,
            p_dup_batch: 40,
            p_empty_batch: 30,
            p_empty_value: 40,
            allow_big: true,
        }
    }
}

/// Labels with awkward shapes: empty, one byte, prefixes of one another, differing in the last
/// byte / last bit, long, non-UTF-8.
pub fn label_universe(rng: &mut Rng, n: usize, allow_big: bool) -> Vec<Vec<u8>> {
    let mut special: Vec<Vec<u8>> = vec![
        vec![],
        vec![0],
        b"a".to_vec(),
        b"ab".to_vec(),
        b"abc".to_vec(),
        b"user-000".to_vec(),
        b"user-001".to_vec(),
        vec![0xff, 0xfe, 0x00, 0x80],
        vec![0u8; 32],
        {
            let mut v = vec![0u8; 32];
            v[31] = 1;
            v
        },
    ];
    if allow_big {
        special.push(vec![b'L'; 300]);
        if rng.chance(1, 12) {
            special.push(rng.bytes(65536));
        }
    }
    rng.shuffle(&mut special);
    let mut out: Vec<Vec<u8>> = vec![];
    let n_special = rng.usize_below(special.len().min(n) + 1);
    out.extend(special.into_iter().take(n_special));
    let mut i = 0u32;
    while out.len() < n {
        let l = format!("k{:03}-{:x}", i, rng.below(1 << 16)).into_bytes();
        if !out.contains(&l) {
            out.push(l);
        }
        i += 1;
    }
    out
}

pub struct Generated {
    pub universe: Vec<Vec<u8>>,
    pub batches: Vec<Batch>,
}

pub fn gen_history(rng: &mut Rng, o: &GenOpts) -> Generated {
    let universe = label_universe(rng, o.universe, o.allow_big);
    let mut cur: HashMap<Vec<u8>, Vec<u8>> = HashMap::new();
    let mut counter = 0u64;
    let mut batches = vec![];
    let hot = universe[0].clone();
    let small_values: Vec<Vec<u8>> = vec![b"A".to_vec(), b"B".to_vec(), b"C".to_vec()];

    for b in 0..o.batches {
        let mut batch: Batch = vec![];
        if rng.chance(o.p_empty_batch, 1000) {
            batches.push(batch);
            continue;
        }
        let mut labels: Vec<Vec<u8>> = match o.flavor {
            Flavor::OnePerEpoch => vec![rng.pick(&universe).clone()],
            Flavor::UpdateOnly if b == 0 => universe.clone(),
            Flavor::HotLabel => {
                let mut ls = vec![hot.clone()];
                if rng.chance(1, 3) {
                    let k = rng.range(1, o.max_batch as u64) as usize;
                    for _ in 0..k {
                        let l = rng.pick(&universe).clone();
                        if !ls.contains(&l) {
                            ls.push(l);
                        }
                    }
                }
                ls
            }
            _ => {
                let k = rng.range(1, o.max_batch as u64) as usize;
                let mut ls: Vec<Vec<u8>> = vec![];
                for _ in 0..k {
                    // bias towards the first few labels so that they accumulate versions
                    let idx = if rng.chance(1, 2) {
                        rng.usize_below(universe.len().min(3))
                    } else {
                        rng.usize_below(universe.len())
                    };
                    let l = universe[idx].clone();
                    if !ls.contains(&l) {
                        ls.push(l);
                    }
                }
                ls
            }
        };
        if o.flavor == Flavor::InsertOnly {
            labels.retain(|l| !cur.contains_key(l));
        }
        if o.flavor == Flavor::UpdateOnly && b > 0 {
            labels.retain(|l| cur.contains_key(l));
        }
        rng.shuffle(&mut labels);
        for l in labels {
            let value: Vec<u8> = if cur.contains_key(&l) && rng.chance(o.p_resubmit, 1000) && o.flavor != Flavor::HotLabel {
                cur[&l].clone()
            } else if o.flavor == Flavor::Alternating || rng.chance(1, 6) {
                rng.pick(&small_values).clone()
            } else if rng.chance(o.p_empty_value, 1000) {
                vec![]
            } else if o.allow_big && rng.chance(1, 200) {
                rng.bytes(65536)
            } else {
                counter += 1;
                format!("v{counter}").into_bytes()
            };
            batch.push((l, value));
        }
        if rng.chance(o.p_dup_batch, 1000) && !batch.is_empty() {
            // repeat a label (same or different value) somewhere in the batch: must be rejected
            let (l, v) = rng.pick(&batch).clone();
            let v2 = if rng.chance(1, 2) { v } else { b"dup".to_vec() };
            let pos = rng.usize_below(batch.len() + 1);
            batch.insert(pos, (l, v2));
        } else {
            for (l, v) in &batch {
                cur.insert(l.clone(), v.clone());
            }
        }
        batches.push(batch);
    }
    Generated { universe, batches }
}

/// compact rendering of a batch for samples / replay files
pub fn batch_json(b: &Batch) -> serde_json::Value {
    serde_json::Value::Array(
        b.iter()
            .map(|(l, v)| serde_json::json!([crate::common::hx(l), crate::common::hx(v)]))
            .collect(),
    )
}

pub fn history_json(h: &[Batch]) -> serde_json::Value {
    serde_json::Value::Array(h.iter().map(batch_json).collect())
}
