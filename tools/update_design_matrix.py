#!/usr/bin/env python3
"""Regenerates the seeded-change table of DESIGN.md section 15 from seeded/*/meta.json."""
import os, re, subprocess
root = os.path.dirname(os.path.dirname(os.path.abspath(__file__)))
table = subprocess.check_output(["python3", os.path.join(root, "tools", "seed_matrix.py")], text=True)
p = os.path.join(root, "DESIGN.md")
s = open(p).read()
s = re.sub(r"<!-- SEED-MATRIX-BEGIN -->.*?<!-- SEED-MATRIX-END -->", "<!-- SEED-MATRIX-BEGIN -->\n" + table.replace("\\", "\\\\") + "<!-- SEED-MATRIX-END -->", s, flags=re.S)
open(p, "w").write(s)
print("DESIGN.md section 15 table updated:", table.count("\n") - 2, "rows")
