//! C03 — key history returns a verifying, complete account of a label's versions.

use crate::checks::histcase::HistCase;
use crate::common::*;
use crate::gen::history_json;
use crate::model::Applied;
use crate::mon::*;
use crate::with_cfg;
use crate::world::*;
use serde_json::json;

pub fn run(ctx: &Ctx) -> i32 {
    let mon = Mon::new();
    if ctx.mode.as_deref() == Some("markers") {
        marker_sweep(ctx, &mon);
        let mut spec = Spec::new("exploration", "marker arithmetic sweep only (dev-profile sub-run: overflow checks and debug assertions)").need("marker_triples_swept", 10_000);
        spec.min_nontrivial = 0;
        return finish(ctx, &mon, spec);
    }
    let n = ctx.tier.pick(320, 2000);
    par_cases(ctx, &mon, "hist", n, |cc, rng, l| {
        let case = HistCase::random(rng, ctx.tier.pick(12, 30), ctx.tier.pick(8, 16), 6, false);
        with_cfg!(case.cfg, TC, { block_on(run_case::<TC>(cc, &case, l, false)) })
    });
    let hot = ctx.tier.pick(32, 96);
    par_cases(ctx, &mon, "hot", hot, |cc, rng, l| {
        let case = HistCase::random(rng, ctx.tier.pick(36, 140), 4, 3, true);
        with_cfg!(case.cfg, TC, { block_on(run_case::<TC>(cc, &case, l, true)) })
    });
    marker_sweep(ctx, &mon);
    finish(
        ctx,
        &mon,
        Spec::new(
            "exploration",
            "generated histories incl. hot-label histories; after every epoch, for every published label and params in {Complete, MostRecent(1,2,3,total-1,total,total+1,total+5)}: key_history must succeed, verify with the same parameter against the returned epoch hash, and the verified list must equal the model's newest-first list (value, version, epoch). distinct = (start_version, end_version, epoch) triples the marker computation sees; non-trivial = total versions >= 2. Plus get_marker_versions panic sweep over boundary u64 triples",
        )
        .need("histories_verified", ctx.tier.pick(3000, 30000))
        .need("max_versions_in_history", ctx.tier.pick(30, 120))
        .need("marker_triples_swept", 10000),
    )
}

async fn run_case<TC: Configuration>(cc: &CaseCtx, case: &HistCase, l: &mut Local, hot: bool) {
    let Ok(mut w) = World::<TC>::new(case.cache, case.par, KeyVrf::hard_coded()).await else {
        l.inconclusive("Directory::new failed");
        return;
    };
    for (bi, batch) in case.hist.batches.iter().enumerate() {
        let (applied, res) = w.publish(batch).await;
        if let (Applied::Epoch(..), Err(e)) = (&applied, &res) {
            l.inconclusive(format!("publish failed in C03 case {}: {e}", cc.id));
            return;
        }
        let epoch = w.model.epoch;
        if epoch == 0 {
            continue;
        }
        // hot histories are long: check every epoch only for the hot label, others every 8th epoch
        let want_eh = EpochHash(epoch, w.published[epoch as usize]);
        for (li, label) in case.hist.universe.iter().enumerate() {
            let full = w.model.history(label, epoch);
            if full.is_empty() {
                // never published: key_history must not produce a proof
                match w.dir.key_history(&AkdLabel(label.clone()), HistoryParams::Complete).await {
                    Ok(_) => {
                        l.violation("C03:unpublished-label-served", "key_history of a never-published label returned a proof",
                            json!({"label": hx(label), "epoch": epoch, "history": history_json(&case.hist.batches[..=bi])}));
                        return;
                    }
                    Err(_) => l.count("unpublished_refused", 1),
                }
                continue;
            }
            if hot && li != 0 && bi % 8 != 7 {
                continue;
            }
            let total = full.len();
            let mut params: Vec<HistoryParams> = vec![HistoryParams::Complete];
            for n in [1usize, 2, 3, total.saturating_sub(1), total, total + 1, total + 5] {
                if n >= 1 && !params.iter().any(|p| matches!(p, HistoryParams::MostRecent(m) if *m == n)) {
                    params.push(HistoryParams::MostRecent(n));
                }
            }
            if hot && total > 12 {
                // long hot histories: rotate through the parameters instead of all of them every epoch
                let keep = bi % params.len();
                params = vec![params[0], params[keep]];
            }
            for p in params {
                l.eval(1);
                let want: Vec<_> = match p {
                    HistoryParams::Complete => full.clone(),
                    HistoryParams::MostRecent(n) => full.iter().take(n).cloned().collect(),
                };
                let ctxj = || {
                    json!({"cfg": case.cfg.name(), "cache": case.cache.name(), "par": par_name(&case.par), "label": hx(label),
                           "epoch": epoch, "params": format!("{p:?}"), "total_versions": total,
                           "history": history_json(&case.hist.batches[..=bi])})
                };
                match w.dir.key_history(&AkdLabel(label.clone()), p).await {
                    Err(e) => {
                        l.violation("C03:key-history-failed", format!("key_history({p:?}) failed: {e}"), ctxj());
                        return;
                    }
                    Ok((proof, eh)) => {
                        if eh != want_eh {
                            l.violation("C03:wrong-epoch-hash", format!("key_history returned epoch hash ({}, {})", eh.0, hx(&eh.1)), ctxj());
                            return;
                        }
                        let vp = HistoryVerificationParams::Default { history_params: p };
                        match w.verify_history(&eh, label, proof, vp) {
                            Err(e) => {
                                l.violation("C03:honest-proof-rejected", format!("history proof ({p:?}) does not verify: {e}"), ctxj());
                                return;
                            }
                            Ok(rs) => {
                                l.count("histories_verified", 1);
                                l.max("max_versions_in_history", rs.len() as u64);
                                let same = rs.len() == want.len() && rs.iter().zip(want.iter()).all(|(r, v)| ver_matches(v, r));
                                if !same {
                                    l.violation(
                                        "C03:wrong-result",
                                        format!(
                                            "verified history {:?} != model {:?}",
                                            rs.iter().map(vr_json).collect::<Vec<_>>(),
                                            want.iter().map(ver_json).collect::<Vec<_>>()
                                        ),
                                        ctxj(),
                                    );
                                    return;
                                }
                                let (s, e) = (want.last().unwrap().version, want[0].version);
                                let canon = format!("{s}/{e}/{epoch}");
                                l.case(canon.as_bytes(), total >= 2);
                            }
                        }
                    }
                }
            }
        }
    }
    l.sample(json!({"case": cc.id, "cfg": case.cfg.name(), "cache": case.cache.name(), "epochs": w.model.epoch,
        "first_batches": history_json(&case.hist.batches[..case.hist.batches.len().min(3)])}));
}

/// get_marker_versions must not panic / overflow for 1 <= start <= end <= epoch, and its outputs must
/// be sane (past < start, end < future <= epoch, strictly increasing).  Run in release and (thorough)
/// again in the dev-profile build where arithmetic overflow panics.
fn marker_sweep(ctx: &Ctx, mon: &Mon) {
    let mut interesting: Vec<u64> = vec![1, 2, 3];
    for k in 1..64u32 {
        let p = 1u64 << k;
        interesting.extend_from_slice(&[p - 1, p, p.saturating_add(1)]);
    }
    interesting.push(u64::MAX);
    interesting.push(u64::MAX - 1);
    interesting.sort();
    interesting.dedup();
    par_cases(ctx, mon, "markers", 16, |cc, rng, l| {
        let mut check = |s: u64, e: u64, ep: u64, l: &mut Local| {
            if !(1 <= s && s <= e && e <= ep) {
                return;
            }
            l.count("marker_triples_swept", 1);
            let r = guarded(l, "C03:", &format!("get_marker_versions({s},{e},{ep})"), |_| {
                akd_core::utils::get_marker_versions(s, e, ep)
            });
            if let Some((past, fut)) = r {
                let ok = past.iter().all(|p| *p >= 1 && *p < s)
                    && fut.iter().all(|f| *f > e && *f <= ep)
                    && past.windows(2).all(|w| w[0] < w[1])
                    && fut.windows(2).all(|w| w[0] < w[1]);
                if !ok {
                    l.violation(
                        format!("C03:markers-insane"),
                        format!("get_marker_versions({s},{e},{ep}) = ({past:?}, {fut:?}) is not sorted/bounded"),
                        json!({"start": s, "end": e, "epoch": ep}),
                    );
                }
            }
        };
        if cc.idx == 0 {
            // boundary triples
            for &a in &interesting {
                for &b in &interesting {
                    if b < a {
                        continue;
                    }
                    for &c in &[b, b.saturating_add(1), b.saturating_mul(2), u64::MAX] {
                        check(a, b, c, l);
                    }
                }
            }
        } else {
            for _ in 0..20000 {
                let bits = rng.range(1, 63);
                let a = rng.below(1u64 << bits).max(1);
                let w1 = 1u64 << rng.range(0, 62);
                let b = a + rng.below(1 + w1.min(u64::MAX - a - 1));
                let w2 = 1u64 << rng.range(0, 62);
                let c = b + rng.below(1 + w2.min(u64::MAX - b - 1));
                check(a, b, c, l);
            }
        }
        l.eval(1);
    });
}
