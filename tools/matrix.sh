#!/bin/bash
# tools/matrix.sh [pattern]
# Re-runs every mutant (mutants/LIST) and every seeded change (seeded/*/patch.diff with the checks its
# meta.json lists under caught_by) against a SCRATCH COPY of /repo and /verif under /var/tmp, so /repo is
# never touched and ordinary work can go on meanwhile.  Prints one line per (patch, property):
#   CAUGHT / MISSED patch=<p> property=<ID> exit=<rc>
# and first runs every listed check once on the unpatched copy (must be SILENT).
# The scratch copy (with its build output) is removed at the end.
set -u
HERE="$(cd "$(dirname "$(readlink -f "$0")")/.." && pwd)"
PAT="${1:-.}"
TIER="${VERIF_TIER:-quick}"
SCR="/var/tmp/akd-mx-$$"
trap 'rm -rf "$SCR"' EXIT
mkdir -p "$SCR"
git -C /repo worktree prune >/dev/null 2>&1
rsync -a --exclude target --exclude '.git' /repo/ "$SCR/repo/"
rsync -a --exclude 'target*' --exclude '.git' --exclude replays "$HERE/" "$SCR/verif/"
(cd "$SCR/repo" && git init -q . && git add -A >/dev/null 2>&1 && git -c user.email=x@x -c user.name=x commit -qm base)
cd "$SCR/verif"
export CARGO_NET_OFFLINE=true
./setup.sh >/dev/null 2>&1 || { echo "matrix: setup failed"; exit 2; }

LIST="$SCR/list.txt"; : > "$LIST"
grep -v '^#' mutants/LIST | while read -r patch props; do [ -n "$patch" ] && echo "mutants/$patch $props" >> "$LIST"; done
for d in seeded/*/; do
  id=$(basename "$d")
  [ -f "$d/patch.diff" ] || continue
  props=$(jq -r '.checks.caught_by | join(" ")' "$d/meta.json" 2>/dev/null)
  [ -n "$props" ] && echo "seeded/$id/patch.diff $props" >> "$LIST"
done

echo "== silence on the unpatched copy"
for ID in $(cut -d' ' -f2- "$LIST" | tr ' ' '\n' | sort -u); do
  out=$(./check "$ID" "$TIER" 2>&1); rc=$?
  if [ $rc -eq 0 ] && ! printf '%s\n' "$out" | grep -q '^VIOLATION'; then echo "SILENT   property=$ID"; else echo "ALARM    property=$ID exit=$rc"; fi
done
echo "== patches"
grep -E "$PAT" "$LIST" | while read -r patch props; do
  if ! git -C "$SCR/repo" apply "$SCR/verif/$patch" 2>/dev/null; then echo "NOAPPLY  patch=$patch"; continue; fi
  for ID in $props; do
    out=$(./check "$ID" "$TIER" 2>&1); rc=$?
    if [ $rc -eq 1 ] && printf '%s\n' "$out" | grep -q "^VIOLATION property=$ID "; then echo "CAUGHT   patch=$patch property=$ID exit=$rc"; else echo "MISSED   patch=$patch property=$ID exit=$rc $(printf '%s\n' "$out" | tail -1 | cut -c1-120)"; fi
  done
  git -C "$SCR/repo" checkout -q -- . ; git -C "$SCR/repo" clean -fdq
done
