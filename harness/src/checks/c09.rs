//! C09 — an accepted audit proof implies nothing committed earlier was removed or altered.
//!
//! The harness builds tree A itself (ground truth), lets the adversarial prover assemble
//! append-only proofs from A's real nodes, obtains the end hash the way a dishonest server would
//! (by running the same insertion the auditor runs — the server may publish any hash it likes),
//! and asks the REAL auditor.  If the auditor accepts, the leaf set actually committed by that end
//! hash is reconstructed and must contain every leaf of A unchanged.

use crate::checks::c05::{build_tree, clustered_labels, BuiltTree};
use crate::checks::histcase::HistCase;
use crate::common::*;
use crate::gen::history_json;
use crate::model::Applied;
use crate::mon::*;
use crate::prover::*;
use crate::rng::Rng;
use crate::with_cfg;
use crate::world::*;
use akd::auditor::{audit_verify, verify_consecutive_append_only};
use serde_json::json;
use std::collections::{BTreeMap, HashMap};

pub fn run(ctx: &Ctx) -> i32 {
    let mon = Mon::new();
    let n = ctx.tier.pick(1500, 40000);
    par_cases(ctx, &mon, "pair", n, |cc, rng, l| {
        let cfg = if rng.chance(1, 2) { Cfg::Wa } else { Cfg::Exp };
        let size = match cc.idx % 6 {
            0 => rng.range(1, 4) as usize,
            1..=4 => rng.range(2, 32) as usize,
            _ => rng.range(32, ctx.tier.pick(64, 500)) as usize,
        };
        with_cfg!(cfg, TC, { block_on(run_pair::<TC>(cc, rng, l, size)) })
    });
    let h = ctx.tier.pick(240, 4000);
    par_cases(ctx, &mon, "lists", h, |cc, rng, l| {
        let mut case = HistCase::random(rng, 10, 10, 6, false);
        case.cache = CacheOpt::None;
        with_cfg!(case.cfg, TC, { block_on(run_lists::<TC>(cc, &case, rng, l)) })
    });
    finish(
        ctx,
        &mon,
        Spec::new(
            "exploration",
            "trees A of 1..500 harness-chosen leaves; candidate single-epoch append-only proofs assembled from A's real nodes: P0 honest, P1 inserted leaf below an 'unchanged' interior node (shadowing), P2 duplicates within/across unchanged and inserted (leaf replaced / re-dated), P3 unchanged ancestor + descendant, P4 altered unchanged hash, P7 unchanged cut omitting a subtree, P8 inserted short (non-leaf) labels; end hash chosen by the prover by running the auditor's own insertion. Oracle: verify_consecutive_append_only Ok => every leaf of A (label, leaf hash) is still committed by the end hash. Plus P5/P6 on real directory histories: any altered/shifted/mismatched hash list, epoch list or proof list must be rejected; P9: a forged step (unchanged set emptied / one node dropped / one hash altered, end hash chosen by the prover) at EVERY position of an otherwise honest multi-epoch chain must be rejected. distinct = (size class, attack class, relation); non-trivial = adversarial",
        )
        .assume("collision resistance of blake3")
        .need("honest_accepted", ctx.tier.pick(200, 3000))
        .need("adversarial_candidates", ctx.tier.pick(3000, 50000))
        .need("P1_shadowing_candidates", ctx.tier.pick(300, 5000))
        .need("list_mutations_judged", ctx.tier.pick(500, 5000)),
    )
}

type Mgr = StorageManager<AsyncInMemoryDatabase>;

/// What a dishonest server does to obtain "its" end hash: the very computation the auditor runs.
/// Returns (root hash, the surviving terminal elements of the rebuilt tree).
async fn auditor_style_root<TC: Configuration>(nodes: Vec<AzksElement>, latest_epoch: Option<u64>) -> Result<(Digest, Vec<AzksElement>), AkdError> {
    let db = AsyncInMemoryDatabase::new(); // no child removal: we want to look at the result
    let mgr: Mgr = StorageManager::new_no_cache(db.clone());
    let mut azks = Azks::new::<TC, _>(&mgr).await?;
    if let Some(e) = latest_epoch {
        azks.latest_epoch = e;
    }
    azks.batch_insert_nodes::<TC, _>(&mgr, nodes, InsertMode::Auditor, AzksParallelismConfig::disabled()).await?;
    let root = azks.get_root_hash::<TC, _>(&mgr).await?;
    // terminal nodes reachable from the root
    let mut map: HashMap<NodeLabel, TreeNode> = HashMap::new();
    for r in db.batch_get_type_direct::<TreeNodeWithPreviousValue>().await.map_err(AkdError::Storage)? {
        if let DbRecord::TreeNode(t) = r {
            map.insert(t.label, t.latest_node);
        }
    }
    let mut terminals = vec![];
    let mut stack = vec![NodeLabel::root()];
    while let Some(lab) = stack.pop() {
        let Some(n) = map.get(&lab) else { continue };
        let kids: Vec<NodeLabel> = [n.left_child, n.right_child].into_iter().flatten().collect();
        if kids.is_empty() {
            if n.node_type != TreeNodeType::Root {
                terminals.push(AzksElement { label: n.label, value: n.hash });
            }
        } else {
            stack.extend(kids);
        }
    }
    Ok((root, terminals))
}

struct PairCtx<'a, TC: Configuration> {
    a: &'a BuiltTree<TC>,
    cfg: Cfg,
    size: usize,
    end_epoch: u64,
}

fn size_class(n: usize) -> &'static str {
    match n {
        0..=3 => "1-3",
        4..=16 => "4-16",
        17..=64 => "17-64",
        _ => "65+",
    }
}

impl<'a, TC: Configuration> PairCtx<'a, TC> {
    /// leaves of A below (or at) a node label
    fn leaves_under(&self, lab: &NodeLabel) -> Vec<(NodeLabel, AzksValue)> {
        self.a
            .truth
            .iter()
            .filter(|(k, _)| is_prefix(lab, k))
            .map(|(k, (v, e))| (*k, AzksValue(TC::hash_leaf_with_commitment(*v, *e).0)))
            .collect()
    }

    async fn judge(&self, l: &mut Local, class: &str, relation: &str, unchanged: Vec<AzksElement>, inserted: Vec<AzksElement>) {
        l.count("adversarial_candidates", 1);
        l.eval(1);
        l.case(format!("{}/{class}/{relation}", size_class(self.size)).as_bytes(), true);
        let start_hash = self.a.view.root_hash;
        let mut all = unchanged.clone();
        all.extend(inserted.iter().map(|x| AzksElement { label: x.label, value: AzksValue(TC::hash_leaf_with_commitment(x.value, self.end_epoch).0) }));
        let Ok((end_hash, terminals)) = auditor_style_root::<TC>(all, Some(self.end_epoch - 1)).await else {
            l.count("prover_could_not_compute_end_hash", 1);
            return;
        };
        let proof = SingleAppendOnlyProof { inserted: inserted.clone(), unchanged_nodes: unchanged.clone() };
        let verdict = verify_consecutive_append_only::<TC>(&proof, start_hash, end_hash, self.end_epoch).await;
        if verdict.is_err() {
            l.count("adversarial_rejected", 1);
            return;
        }
        l.count("adversarial_accepted", 1);
        // reconstruct what the end hash commits to: expand surviving 'unchanged' elements into A's leaves
        let mut committed: BTreeMap<NodeLabel, AzksValue> = BTreeMap::new();
        for t in &terminals {
            if self.a.view.has_node(&t.label, &t.value) && unchanged.iter().any(|u| u.label == t.label && u.value == t.value) {
                for (k, v) in self.leaves_under(&t.label) {
                    committed.insert(k, v);
                }
            } else {
                committed.insert(t.label, t.value);
            }
        }
        if std::env::var("VERIF_DEBUG").is_ok() {
            eprintln!("DEBUG {class}/{relation}: unchanged={:?}\n terminals={:?}\n committed={}", unchanged.iter().map(|u| label_str(&u.label)).collect::<Vec<_>>(), terminals.iter().map(|u| (label_str(&u.label), self.a.view.has_node(&u.label, &u.value))).collect::<Vec<_>>(), committed.len());
        }
        let mut lost = vec![];
        for (k, (v, e)) in &self.a.truth {
            let h = AzksValue(TC::hash_leaf_with_commitment(*v, *e).0);
            if committed.get(k) != Some(&h) {
                lost.push(label_str(k));
            }
        }
        if !lost.is_empty() {
            l.violation(
                format!("C09:{class}/{relation}"),
                format!(
                    "auditor accepted a transition ({class}) although {} of {} leaves committed by the start hash are no longer committed unchanged by the end hash",
                    lost.len(),
                    self.a.truth.len()
                ),
                json!({"cfg": self.cfg.name(), "class": class, "relation": relation, "leaves_in_A": self.a.truth.len(), "lost_or_altered": lost.iter().take(8).collect::<Vec<_>>(),
                       "unchanged": unchanged.iter().take(8).map(|u| label_str(&u.label)).collect::<Vec<_>>(),
                       "inserted": inserted.iter().take(8).map(|u| label_str(&u.label)).collect::<Vec<_>>(),
                       "end_epoch": self.end_epoch, "leaf_labels_of_A": self.a.truth.keys().take(16).map(label_str).collect::<Vec<_>>()}),
            );
        }
    }
}

/// an extension of `prefix` to 256 bits that is not an existing leaf
fn extend_label(rng: &mut Rng, prefix: &NodeLabel, avoid: &BTreeMap<NodeLabel, (AzksValue, u64)>) -> Option<NodeLabel> {
    for _ in 0..64 {
        let r = NodeLabel::new(rng.arr32(), 256);
        let mut v = r;
        for i in 0..prefix.label_len {
            if bit_at(&v, i) != bit_at(prefix, i) {
                v = flip_bit(&v, i);
            }
        }
        if !avoid.contains_key(&v) {
            return Some(v);
        }
    }
    None
}

async fn run_pair<TC: Configuration>(cc: &CaseCtx, rng: &mut Rng, l: &mut Local, size: usize) {
    let cfg = cfg_of::<TC>();
    let labels = clustered_labels(rng, size);
    let n_epochs = rng.range(1, 3) as usize;
    let mut epochs: Vec<Vec<AzksElement>> = vec![vec![]; n_epochs];
    for (i, lab) in labels.iter().enumerate() {
        let e = if i == 0 { 0 } else { rng.usize_below(n_epochs) };
        epochs[e].push(AzksElement { label: *lab, value: AzksValue(rng.arr32()) });
    }
    epochs.retain(|b| !b.is_empty());
    let Ok(a) = build_tree::<TC>(&epochs, AzksParallelismConfig::disabled()).await else {
        l.inconclusive("tree build failed");
        return;
    };
    let end_epoch = a.azks.latest_epoch + 1;
    let pc = PairCtx::<TC> { a: &a, cfg, size, end_epoch };

    // ---- P0: the honest transition (akd's own generator) must be accepted
    let n_new = rng.range(1, 5) as usize;
    let mut new_leaves: Vec<AzksElement> = vec![];
    while new_leaves.len() < n_new {
        let lab = if rng.chance(1, 2) && !labels.is_empty() {
            flip_bit(rng.pick(&labels), *rng.pick(&[255u32, 254, 200, 128, 64, 9, 8, 7, 1, 0]))
        } else {
            NodeLabel::new(rng.arr32(), 256)
        };
        if !a.truth.contains_key(&lab) && !new_leaves.iter().any(|x| x.label == lab) {
            new_leaves.push(AzksElement { label: lab, value: AzksValue(rng.arr32()) });
        }
    }
    {
        // continue A's own storage by one epoch
        let mut azks = a.azks.clone();
        if azks.batch_insert_nodes::<TC, _>(&a.mgr, new_leaves.clone(), InsertMode::Directory, AzksParallelismConfig::disabled()).await.is_ok() {
            let end_hash = azks.get_root_hash::<TC, _>(&a.mgr).await.unwrap();
            match azks.get_append_only_proof::<TC, _>(&a.mgr, end_epoch - 1, end_epoch, AzksParallelismConfig::disabled()).await {
                Ok(p) if p.proofs.len() == 1 => {
                    l.eval(1);
                    match verify_consecutive_append_only::<TC>(&p.proofs[0], a.view.root_hash, end_hash, end_epoch).await {
                        Ok(()) => l.count("honest_accepted", 1),
                        Err(e) => l.violation("C09:honest-proof-rejected", format!("honest single-epoch audit proof rejected: {e}"), json!({"cfg": cfg.name(), "size": size})),
                    }
                    // honest proof, one root hash replaced
                    let mut bad = end_hash;
                    bad[rng.usize_below(32)] ^= 1;
                    l.count("adversarial_candidates", 1);
                    if verify_consecutive_append_only::<TC>(&p.proofs[0], a.view.root_hash, bad, end_epoch).await.is_ok() {
                        l.violation("C09:altered-end-hash-accepted", "honest proof accepted against an altered end hash", json!({"size": size}));
                    }
                    let mut bad = a.view.root_hash;
                    bad[rng.usize_below(32)] ^= 1;
                    l.count("adversarial_candidates", 1);
                    if verify_consecutive_append_only::<TC>(&p.proofs[0], bad, end_hash, end_epoch).await.is_ok() {
                        l.violation("C09:altered-start-hash-accepted", "honest proof accepted against an altered start hash", json!({"size": size}));
                    }
                    l.count("adversarial_candidates", 1);
                    if verify_consecutive_append_only::<TC>(&p.proofs[0], a.view.root_hash, end_hash, end_epoch + 1).await.is_ok() {
                        l.violation("C09:wrong-end-epoch-accepted", "honest proof accepted for another end epoch", json!({"size": size}));
                    }
                }
                _ => l.inconclusive("honest append-only proof generation failed"),
            }
        }
    }
    // A's view is as of its own latest epoch (the continuation above wrote newer node versions, TreeView::load kept epoch<=A)
    let root = &a.view.nodes[&NodeLabel::root()];
    // the coarsest cut: the root's children
    let cut: Vec<AzksElement> = [root.left_child, root.right_child].into_iter().flatten().map(|c| a.view.elem(&a.view.nodes[&c])).collect();
    // a random finer cut
    let mut fine: Vec<NodeLabel> = [root.left_child, root.right_child].into_iter().flatten().collect();
    for _ in 0..rng.below(6) {
        if let Some(i) = (0..fine.len()).find(|_| rng.chance(1, 2)) {
            let n = &a.view.nodes[&fine[i]];
            if let (Some(lc), Some(rc)) = (n.left_child, n.right_child) {
                fine.remove(i);
                fine.push(lc);
                fine.push(rc);
            }
        }
    }
    let fine_cut: Vec<AzksElement> = fine.iter().map(|c| a.view.elem(&a.view.nodes[c])).collect();
    let interior: Vec<&TreeNode> = a.view.nodes.values().filter(|n| n.node_type == TreeNodeType::Interior).collect();
    let fresh_value = AzksValue(rng.arr32());

    for (cutname, u) in [("coarse-cut", &cut), ("fine-cut", &fine_cut)] {
        // arbitrary new leaves over this cut (they may lie below an unchanged interior node)
        pc.judge(l, "P1-arbitrary-new-leaves-over-cut", cutname, u.clone(), new_leaves.clone()).await;
        // ---- P1: inserted leaf strictly below an unchanged INTERIOR node
        for un in u.iter().filter(|x| x.label.label_len < 256).take(3) {
            let Some(below) = extend_label(rng, &un.label, &a.truth) else { continue };
            l.count("P1_shadowing_candidates", 1);
            pc.judge(l, "P1-inserted-leaf-below-unchanged-interior-node", "new-label", u.clone(), vec![AzksElement { label: below, value: fresh_value }]).await;
            // ... or re-inserting an existing leaf below it with a new value (replacement)
            if let Some((k, _)) = pc.leaves_under(&un.label).first() {
                l.count("P1_shadowing_candidates", 1);
                pc.judge(l, "P1-inserted-leaf-below-unchanged-interior-node", "existing-label", u.clone(), vec![AzksElement { label: *k, value: fresh_value }]).await;
            }
            // boundary extensions: the all-zero extension has the SAME label value as the node itself,
            // the all-one extension is the last label below it; plus the one-bit-longer zero extension
            let mut ones = un.label;
            for i in un.label.label_len..256 {
                if bit_at(&ones, i) == 0 {
                    ones = flip_bit(&ones, i);
                }
            }
            let ones = NodeLabel::new(ones.label_val, 256);
            let zeros = NodeLabel::new(un.label.get_prefix(un.label.label_len).label_val, 256);
            for (rel, lab) in [("zero-extension-leaf", zeros), ("one-extension-leaf", ones), ("zero-extension-one-bit", NodeLabel::new(zeros.label_val, un.label.label_len + 1))] {
                l.count("P1_shadowing_candidates", 1);
                pc.judge(l, "P1-inserted-leaf-below-unchanged-interior-node", rel, u.clone(), vec![AzksElement { label: lab, value: fresh_value }]).await;
            }
            // inserted *interior-length* label below
            if un.label.label_len < 250 {
                let sub = below.get_prefix(un.label.label_len + 3);
                pc.judge(l, "P8-inserted-short-label-below-unchanged", "prefix-extension", u.clone(), vec![AzksElement { label: sub, value: fresh_value }]).await;
            }
        }
        // ---- P2: duplicates
        if let Some(first) = u.first() {
            let mut d = u.clone();
            d.push(*first);
            pc.judge(l, "P2-duplicate-unchanged", "equal", d, new_leaves.clone()).await;
            let mut d = u.clone();
            d.push(AzksElement { label: first.label, value: fresh_value });
            pc.judge(l, "P2-duplicate-unchanged-other-hash", "equal", d, new_leaves.clone()).await;
        }
        {
            let mut ins = new_leaves.clone();
            ins.push(new_leaves[0]);
            pc.judge(l, "P2-duplicate-inserted", "equal", u.clone(), ins).await;
            let mut ins = new_leaves.clone();
            ins.push(AzksElement { label: new_leaves[0].label, value: fresh_value });
            pc.judge(l, "P2-duplicate-inserted-other-value", "equal", u.clone(), ins).await;
        }
        if let Some(leafu) = u.iter().find(|x| x.label.label_len == 256) {
            // an unchanged LEAF also appears as inserted: replaced / re-dated
            pc.judge(l, "P2-unchanged-leaf-reinserted", "equal", u.clone(), vec![AzksElement { label: leafu.label, value: fresh_value }]).await;
        }
        // ---- P3: an unchanged node together with one of its descendants
        if let Some(un) = u.iter().find(|x| x.label.label_len < 256) {
            let n = &a.view.nodes[&un.label];
            if let Some(c) = n.left_child {
                let mut d = u.clone();
                d.push(a.view.elem(&a.view.nodes[&c]));
                pc.judge(l, "P3-unchanged-ancestor-and-descendant", "prefix", d.clone(), new_leaves.clone()).await;
                // descendant with another hash
                let mut d2 = u.clone();
                d2.push(AzksElement { label: c, value: fresh_value });
                pc.judge(l, "P3-unchanged-ancestor-and-altered-descendant", "prefix", d2, new_leaves.clone()).await;
            }
        }
        // ---- P4: altered hash of an unchanged node
        if !u.is_empty() {
            let mut d = u.clone();
            let i = rng.usize_below(d.len());
            d[i].value.0[0] ^= 1;
            pc.judge(l, "P4-unchanged-hash-altered", "-", d, new_leaves.clone()).await;
        }
        // ---- P7: cut omitting a subtree
        if u.len() >= 2 {
            let mut d = u.clone();
            d.pop();
            pc.judge(l, "P7-unchanged-cut-omits-subtree", "-", d, new_leaves.clone()).await;
        }
    }
    // P1 with arbitrary interior nodes as the *only* shadowed element, rest of the cut fine
    for n in interior.iter().take(3) {
        // cut = siblings along the path to n, plus n itself
        let path = a.view.path(&n.label);
        let mut u: Vec<AzksElement> = vec![a.view.elem(n)];
        for w in path.windows(2) {
            let p = &a.view.nodes[&w[0]];
            let other = if p.left_child == Some(w[1]) { p.right_child } else { p.left_child };
            if let Some(o) = other {
                u.push(a.view.elem(&a.view.nodes[&o]));
            }
        }
        let Some(below) = extend_label(rng, &n.label, &a.truth) else { continue };
        l.count("P1_shadowing_candidates", 1);
        pc.judge(l, "P1-inserted-leaf-below-unchanged-interior-node", "path-cut", u, vec![AzksElement { label: below, value: fresh_value }]).await;
    }
    l.sample(json!({"case": cc.id, "cfg": cfg.name(), "leaves_in_A": size, "epochs_of_A": a.azks.latest_epoch}));
}

/// P5 / P6: list-level mutations of honest multi-epoch proofs from a real directory
async fn run_lists<TC: Configuration>(cc: &CaseCtx, case: &HistCase, rng: &mut Rng, l: &mut Local) {
    let Ok(mut w) = World::<TC>::new(case.cache, case.par, KeyVrf::hard_coded()).await else {
        l.inconclusive("Directory::new failed");
        return;
    };
    for batch in &case.hist.batches {
        let (applied, res) = w.publish(batch).await;
        if let (Applied::Epoch(..), Err(e)) = (&applied, &res) {
            l.inconclusive(format!("publish failed: {e}"));
            return;
        }
    }
    let cur = w.model.epoch;
    if cur < 2 {
        return;
    }
    let hist = history_json(&case.hist.batches);
    for _ in 0..6 {
        let s = rng.below(cur);
        let e = rng.range(s + 1, cur);
        let Ok(proof) = w.dir.audit(s, e).await else {
            l.violation("C09:honest-audit-failed", "audit failed", json!({"s": s, "e": e}));
            return;
        };
        let hashes: Vec<Digest> = w.published[s as usize..=e as usize].to_vec();
        l.eval(1);
        if audit_verify::<TC>(hashes.clone(), proof.clone()).await.is_err() {
            l.violation("C09:honest-proof-rejected", "honest audit proof rejected", json!({"s": s, "e": e, "history": hist}));
            return;
        }
        l.count("honest_accepted", 1);
        let mut cands: Vec<(&str, Vec<Digest>, AppendOnlyProof)> = vec![];
        for i in 0..hashes.len() {
            let mut h = hashes.clone();
            h[i][rng.usize_below(32)] ^= 1 << rng.below(8);
            cands.push(("P5-one-hash-replaced", h, proof.clone()));
        }
        if hashes.len() >= 3 {
            let mut h = hashes.clone();
            h.swap(0, 1);
            cands.push(("P5-hashes-swapped", h, proof.clone()));
            let mut h = hashes.clone();
            h.remove(1);
            cands.push(("P5-hash-removed", h, proof.clone()));
            let mut p = proof.clone();
            p.proofs.swap(0, 1);
            cands.push(("P5-proofs-swapped", hashes.clone(), p));
            let mut p = proof.clone();
            p.epochs.swap(0, 1);
            cands.push(("P5-epochs-swapped", hashes.clone(), p));
        }
        {
            let mut h = hashes.clone();
            h.push(*hashes.last().unwrap());
            cands.push(("P5-extra-hash", h, proof.clone()));
            let mut p = proof.clone();
            p.epochs.pop();
            cands.push(("P5-epochs-shorter", hashes.clone(), p));
            let mut p = proof.clone();
            p.proofs.pop();
            cands.push(("P5-proofs-shorter", hashes.clone(), p));
            let mut p = proof.clone();
            p.epochs.push(e);
            cands.push(("P5-epochs-longer", hashes.clone(), p));
            let mut p = proof.clone();
            for x in p.epochs.iter_mut() {
                *x += 1;
            }
            cands.push(("P5-epochs-shifted-up", hashes.clone(), p));
            let mut p = proof.clone();
            for x in p.epochs.iter_mut() {
                *x = x.wrapping_sub(1);
            }
            if s >= 1 {
                cands.push(("P5-epochs-shifted-down", hashes.clone(), p));
            }
            let mut p = proof.clone();
            let last = p.proofs.len() - 1;
            if !p.proofs[last].inserted.is_empty() {
                p.proofs[last].inserted.pop();
                cands.push(("P5-inserted-leaf-dropped", hashes.clone(), p));
            }
            let mut p = proof.clone();
            if !p.proofs[0].unchanged_nodes.is_empty() {
                p.proofs[0].unchanged_nodes.pop();
                cands.push(("P5-unchanged-node-dropped", hashes.clone(), p));
            }
        }
        // P9: a FORGED step at position j of an otherwise honest chain.  The forged step drops / alters
        // committed material in its 'unchanged' set and the prover picks the matching end hash (by running
        // the auditor's own insertion), then truncates the chain there.  The same forged step is rejected
        // on its own (its unchanged set does not hash to the start hash); it must be rejected at every
        // position of a chain as well - in particular at positions j >= 1, where the start hash of the step
        // is also the end hash of the step before.
        {
            let n_steps = proof.proofs.len();
            for j in 0..n_steps {
                let honest = &proof.proofs[j];
                let end_epoch = proof.epochs[j] + 1;
                let mut variants: Vec<(&str, Vec<AzksElement>)> = vec![("P9-forged-step-unchanged-empty", vec![])];
                if honest.unchanged_nodes.len() >= 2 {
                    let mut u = honest.unchanged_nodes.clone();
                    u.remove(rng.usize_below(u.len()));
                    variants.push(("P9-forged-step-unchanged-node-dropped", u));
                }
                if !honest.unchanged_nodes.is_empty() {
                    let mut u = honest.unchanged_nodes.clone();
                    let k = rng.usize_below(u.len());
                    u[k].value.0[5] ^= 0x40;
                    variants.push(("P9-forged-step-unchanged-hash-altered", u));
                }
                for (cls, unchanged) in variants {
                    if unchanged == honest.unchanged_nodes {
                        continue;
                    }
                    let mut all = unchanged.clone();
                    all.extend(honest.inserted.iter().map(|x| AzksElement { label: x.label, value: AzksValue(TC::hash_leaf_with_commitment(x.value, end_epoch).0) }));
                    if all.is_empty() {
                        continue;
                    }
                    let Ok((forged_end, _)) = auditor_style_root::<TC>(all, Some(end_epoch - 1)).await else {
                        l.count("prover_could_not_compute_end_hash", 1);
                        continue;
                    };
                    if forged_end == hashes[j + 1] {
                        continue; // not a forgery (e.g. the dropped node did not matter)
                    }
                    let mut h: Vec<Digest> = hashes[..=j].to_vec();
                    h.push(forged_end);
                    let mut p = AppendOnlyProof { proofs: proof.proofs[..j].to_vec(), epochs: proof.epochs[..=j].to_vec() };
                    p.proofs.push(SingleAppendOnlyProof { inserted: honest.inserted.clone(), unchanged_nodes: unchanged });
                    l.count(if j == 0 { "P9_forged_first_step" } else { "P9_forged_later_step" }, 1);
                    cands.push((cls, h, p));
                }
            }
        }
        // P6: the proof of (s,e) against the hashes of another range of the same length
        let len = e - s;
        for s2 in 0..=(cur - len) {
            if s2 != s {
                let h2: Vec<Digest> = w.published[s2 as usize..=(s2 + len) as usize].to_vec();
                cands.push(("P6-hashes-of-another-range", h2, proof.clone()));
            }
        }
        for (cls, h, p) in cands {
            l.eval(1);
            l.count("list_mutations_judged", 1);
            l.count("adversarial_candidates", 1);
            l.case(format!("lists/{cls}/{}", (e - s).min(4)).as_bytes(), true);
            if audit_verify::<TC>(h.clone(), p.clone()).await.is_ok() {
                l.violation(
                    format!("C09:{cls}"),
                    format!("audit_verify accepted a proof/hash list altered by {cls}"),
                    json!({"cfg": case.cfg.name(), "class": cls, "s": s, "e": e, "current_epoch": cur, "history": hist}),
                );
            }
        }
    }
    l.sample(json!({"case": cc.id, "kind": "list-mutations", "epochs": cur}));
}

