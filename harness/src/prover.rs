//! Adversarial prover: reads the real nodes of a real tree through the public storage API and
//! assembles proofs — the honest ones and many dishonest ones.

use crate::common::*;
use std::collections::HashMap;

/// Snapshot of the latest state of every node of a tree.
pub struct TreeView<TC: Configuration> {
    pub nodes: HashMap<NodeLabel, TreeNode>,
    pub root_hash: Digest,
    pub epoch: u64,
    _tc: std::marker::PhantomData<TC>,
}

pub fn bit_at(l: &NodeLabel, i: u32) -> u8 {
    (l.label_val[(i / 8) as usize] >> (7 - (i % 8))) & 1
}

/// bit-string prefix test written independently of NodeLabel::is_prefix_of
pub fn is_prefix(a: &NodeLabel, b: &NodeLabel) -> bool {
    a.label_len <= b.label_len && (0..a.label_len).all(|i| bit_at(a, i) == bit_at(b, i))
}

pub fn flip_bit(l: &NodeLabel, i: u32) -> NodeLabel {
    let mut v = l.label_val;
    v[(i / 8) as usize] ^= 1 << (7 - (i % 8));
    NodeLabel::new(v, l.label_len)
}

impl<TC: Configuration> TreeView<TC> {
    /// Read every tree-node record (latest version) from the database.
    pub async fn load<D: Database + StorageUtil>(db: &D, epoch: u64) -> Self {
        let mut nodes = HashMap::new();
        for r in db.batch_get_type_direct::<TreeNodeWithPreviousValue>().await.expect("dump nodes") {
            if let DbRecord::TreeNode(t) = r {
                // as-of `epoch`: the latest version unless it is newer than the epoch
                let n = if t.latest_node.last_epoch > epoch {
                    match t.previous_node {
                        Some(p) => p,
                        None => continue,
                    }
                } else {
                    t.latest_node
                };
                nodes.insert(n.label, n);
            }
        }
        let root = nodes.get(&NodeLabel::root()).expect("root node");
        let root_hash = TC::compute_root_hash_from_val(&root.hash);
        TreeView {
            nodes,
            root_hash,
            epoch,
            _tc: std::marker::PhantomData,
        }
    }

    /// (label, hash as it enters the parent's hash) of a node
    pub fn elem(&self, n: &TreeNode) -> AzksElement {
        let value = if n.node_type == TreeNodeType::Leaf {
            AzksValue(TC::hash_leaf_with_commitment(n.hash, n.last_epoch).0)
        } else {
            n.hash
        };
        AzksElement { label: n.label, value }
    }

    pub fn empty_elem() -> AzksElement {
        AzksElement {
            label: TC::empty_label(),
            value: TC::empty_node_hash(),
        }
    }

    pub fn child_elem(&self, n: &TreeNode, dir: Direction) -> AzksElement {
        let c = match dir {
            Direction::Left => n.left_child,
            Direction::Right => n.right_child,
        };
        match c.and_then(|c| self.nodes.get(&c)) {
            Some(ch) => self.elem(ch),
            None => Self::empty_elem(),
        }
    }

    pub fn children(&self, n: &TreeNode) -> [AzksElement; 2] {
        [self.child_elem(n, Direction::Left), self.child_elem(n, Direction::Right)]
    }

    /// labels of the nodes on the path from the root towards `q`: every node whose label is a
    /// prefix of (or equal to) `q`, root first.
    pub fn path(&self, q: &NodeLabel) -> Vec<NodeLabel> {
        let mut out = vec![NodeLabel::root()];
        let mut cur = self.nodes.get(&NodeLabel::root()).unwrap();
        loop {
            if cur.label.label_len >= q.label_len {
                break;
            }
            let dir = if bit_at(q, cur.label.label_len) == 0 { cur.left_child } else { cur.right_child };
            match dir.and_then(|c| self.nodes.get(&c)) {
                Some(ch) if is_prefix(&ch.label, q) => {
                    out.push(ch.label);
                    cur = ch;
                }
                _ => break,
            }
        }
        out
    }

    /// membership proof of an existing node, assembled by the harness from the node map
    pub fn membership(&self, label: &NodeLabel) -> Option<MembershipProof> {
        let target = self.nodes.get(label)?;
        let path = self.path(label);
        if path.last() != Some(label) {
            return None;
        }
        let mut sibling_proofs = vec![];
        for w in path.windows(2) {
            let parent = self.nodes.get(&w[0]).unwrap();
            let child = w[1];
            let direction = if parent.left_child == Some(child) { Direction::Left } else { Direction::Right };
            let sib = self.child_elem(parent, direction.other());
            sibling_proofs.push(SiblingProof {
                label: parent.label,
                siblings: [sib],
                direction,
            });
        }
        Some(MembershipProof {
            label: *label,
            hash_val: self.elem(target).value,
            sibling_proofs,
        })
    }

    /// a non-membership "proof" for `q` anchored at an arbitrary existing node
    pub fn nonmembership_at(&self, q: &NodeLabel, anchor: &NodeLabel) -> Option<NonMembershipProof> {
        let a = self.nodes.get(anchor)?;
        Some(NonMembershipProof {
            label: *q,
            longest_prefix: *anchor,
            longest_prefix_children: self.children(a),
            longest_prefix_membership_proof: self.membership(anchor)?,
        })
    }

    /// Non-membership "proofs" for labels that carry (a prefix of) the bits of `q` but a bit length
    /// k < 256: for every node A on the path towards `q` (A != q) and k with A.len <= k < len of the
    /// next path node (or 256), the label (q's bits, k) really is absent from the tree, so the tree part
    /// of the proof is genuine — only the VRF binding (node label = full 256-bit VRF output) can reject
    /// it when it is presented as the absence of `q`.  `keep_bytes` keeps q's 32 bytes verbatim (a
    /// non-canonical label); otherwise the bits beyond k are zeroed.
    pub fn shortened_label_nonmembership(&self, q: &NodeLabel) -> Vec<(u32, bool, NonMembershipProof)> {
        let mut out = vec![];
        let path = self.path(q);
        for (i, a) in path.iter().enumerate() {
            if a == q {
                continue;
            }
            let next_len = path.get(i + 1).map(|n| n.label_len).unwrap_or(256).min(256);
            let mut ks = vec![a.label_len, a.label_len + 1, next_len.saturating_sub(1), 255];
            ks.retain(|k| *k >= a.label_len && *k < next_len && *k < 256);
            ks.sort();
            ks.dedup();
            for k in ks {
                for keep_bytes in [true, false] {
                    let label = NodeLabel {
                        label_val: if keep_bytes { q.label_val } else { q.get_prefix(k).label_val },
                        label_len: k,
                    };
                    if let Some(p) = self.nonmembership_at(&label, a) {
                        out.push((k, keep_bytes, p));
                    }
                }
            }
        }
        out
    }

    /// ground truth: is `q` a leaf of the tree?
    pub fn is_leaf(&self, q: &NodeLabel) -> bool {
        self.nodes.get(q).map(|n| n.node_type == TreeNodeType::Leaf).unwrap_or(false)
    }

    /// ground truth: the deepest node whose label is a prefix of q
    pub fn deepest_prefix(&self, q: &NodeLabel) -> NodeLabel {
        *self.path(q).last().unwrap()
    }

    /// is (label, hash) a real node of this tree?
    pub fn has_node(&self, label: &NodeLabel, hash: &AzksValue) -> bool {
        self.nodes.get(label).map(|n| self.elem(n).value == *hash).unwrap_or(false)
    }
}

// ---------------------------------------------------------------------------------------------
// Forging directory-level proofs (lookup / history) from real tree nodes and real VRF proofs.

pub struct Forge<TC: Configuration> {
    pub view: TreeView<TC>,
    pub vrf: KeyVrf,
    pub ck: Digest,
}

impl<TC: Configuration> Forge<TC> {
    pub async fn new<D: Database + StorageUtil>(db: &D, epoch: u64, vrf: KeyVrf) -> Self {
        let view = TreeView::<TC>::load(db, epoch).await;
        let ck = TC::hash(&vrf.0);
        Forge { view, vrf, ck }
    }

    pub async fn node_label(&self, label: &[u8], fresh: bool, version: u64) -> NodeLabel {
        let f = if fresh { VersionFreshness::Fresh } else { VersionFreshness::Stale };
        self.vrf.get_node_label::<TC>(&AkdLabel(label.to_vec()), f, version).await.expect("vrf")
    }

    pub async fn vrf_proof(&self, label: &[u8], fresh: bool, version: u64) -> Vec<u8> {
        let f = if fresh { VersionFreshness::Fresh } else { VersionFreshness::Stale };
        self.vrf
            .get_label_proof::<TC>(&AkdLabel(label.to_vec()), f, version)
            .await
            .expect("vrf proof")
            .to_bytes()
            .to_vec()
    }

    pub fn nonce(&self, node_label: &NodeLabel, version: u64, value: &[u8]) -> Vec<u8> {
        TC::get_commitment_nonce(&self.ck, node_label, version, &AkdValue(value.to_vec())).to_vec()
    }

    /// membership proof of an existing node, or (when absent) the membership proof of the deepest
    /// matching node re-labelled — a prover has to put *something* there
    pub fn membership_or_nearest(&self, l: &NodeLabel) -> MembershipProof {
        match self.view.membership(l) {
            Some(p) => p,
            None => {
                let d = self.view.deepest_prefix(l);
                self.view.membership(&d).expect("deepest prefix is a node")
            }
        }
    }

    /// A membership "proof" for `l` with the leaf hash `hash`, whether or not such a node exists: the real
    /// proof when (l, hash) is a real node, otherwise the Merkle path of the deepest matching node with
    /// label and hash replaced.  Internally consistent with what the prover claims, inconsistent with the
    /// tree: only the recomputation of the root can reject it.
    pub fn membership_forced(&self, l: &NodeLabel, hash: AzksValue) -> MembershipProof {
        let mut p = self.membership_or_nearest(l);
        p.label = *l;
        p.hash_val = hash;
        p
    }

    /// A lookup proof claiming (version, value, epoch) for `label`, with the freshness
    /// (non-membership of the stale label) anchored at `anchor` (None = deepest matching node).
    pub async fn lookup_proof(&self, label: &[u8], version: u64, value: &[u8], epoch: u64, anchor: Option<NodeLabel>) -> Option<LookupProof> {
        if version == 0 {
            return None;
        }
        let fresh = self.node_label(label, true, version).await;
        let marker_v = 1u64 << (63 - version.leading_zeros());
        let marker = self.node_label(label, true, marker_v).await;
        let stale = self.node_label(label, false, version).await;
        let anchor = anchor.unwrap_or_else(|| self.view.deepest_prefix(&stale));
        Some(LookupProof {
            epoch,
            value: AkdValue(value.to_vec()),
            version,
            existence_vrf_proof: self.vrf_proof(label, true, version).await,
            existence_proof: self.membership_or_nearest(&fresh),
            marker_vrf_proof: self.vrf_proof(label, true, marker_v).await,
            marker_proof: self.membership_or_nearest(&marker),
            freshness_vrf_proof: self.vrf_proof(label, false, version).await,
            freshness_proof: self.view.nonmembership_at(&stale, &anchor)?,
            commitment_nonce: self.nonce(&fresh, version, value),
        })
    }

    pub async fn update_proof(&self, label: &[u8], version: u64, value: &[u8], epoch: u64) -> UpdateProof {
        let fresh = self.node_label(label, true, version).await;
        let (pv, pp) = if version > 1 {
            let stale = self.node_label(label, false, version - 1).await;
            (Some(self.vrf_proof(label, false, version - 1).await), Some(self.membership_or_nearest(&stale)))
        } else {
            (None, None)
        };
        UpdateProof {
            epoch,
            value: AkdValue(value.to_vec()),
            version,
            existence_vrf_proof: self.vrf_proof(label, true, version).await,
            existence_proof: self.membership_or_nearest(&fresh),
            previous_version_vrf_proof: pv,
            previous_version_proof: pp,
            commitment_nonce: self.nonce(&fresh, version, value),
        }
    }

    /// A history proof showing `entries` (newest first: (version, value, epoch)) at directory epoch
    /// `cur_epoch`; marker proofs are generated for exactly the versions the verifier will ask for.
    /// `absent_anchor(stale_or_future_label)` chooses the anchor of each non-membership proof.
    pub async fn history_proof(
        &self,
        label: &[u8],
        entries: &[(u64, Vec<u8>, u64)],
        cur_epoch: u64,
        shallow_anchor_depth: Option<usize>,
    ) -> Option<HistoryProof> {
        if entries.is_empty() {
            return None;
        }
        let mut update_proofs = vec![];
        for (v, val, ep) in entries {
            update_proofs.push(self.update_proof(label, *v, val, *ep).await);
        }
        let start = entries.iter().map(|e| e.0).min().unwrap();
        let end = entries.iter().map(|e| e.0).max().unwrap();
        if start == 0 || end > cur_epoch {
            return None;
        }
        let (past, future) = akd_core::utils::get_marker_versions(start, end, cur_epoch);
        let mut past_vrf = vec![];
        let mut past_proofs = vec![];
        for v in past {
            let nl = self.node_label(label, true, v).await;
            past_vrf.push(self.vrf_proof(label, true, v).await);
            past_proofs.push(self.membership_or_nearest(&nl));
        }
        let mut fut_vrf = vec![];
        let mut fut_proofs = vec![];
        for v in future {
            let nl = self.node_label(label, true, v).await;
            fut_vrf.push(self.vrf_proof(label, true, v).await);
            let path = self.view.path(&nl);
            let anchor = match shallow_anchor_depth {
                // an anchor `d` levels above the deepest matching node (clamped at the root)
                Some(d) => path[path.len().saturating_sub(1 + d).min(path.len() - 1)],
                None => *path.last().unwrap(),
            };
            // if the future version exists as a leaf, the deepest node IS the leaf: anchor at its parent
            let anchor = if anchor == nl && path.len() >= 2 { path[path.len() - 2] } else { anchor };
            fut_proofs.push(self.view.nonmembership_at(&nl, &anchor)?);
        }
        Some(HistoryProof {
            update_proofs,
            past_marker_vrf_proofs: past_vrf,
            existence_of_past_marker_proofs: past_proofs,
            future_marker_vrf_proofs: fut_vrf,
            non_existence_of_future_marker_proofs: fut_proofs,
        })
    }
}
