#!/usr/bin/env python3
"""Regenerates /verif/MANIFEST.json from the table below (kept next to the checks so the manifest
is always valid and current).  Run: python3 tools/gen_manifest.py"""
import json, os, sys

ROOT = os.path.dirname(os.path.dirname(os.path.abspath(__file__)))

# id -> (category, technique, level text, level note, design ref)
CLAIMED = {
    "C01": ("exploration",
            "runtime monitor: reference model + independent root recomputation compared after every publish of generated histories",
            "Every publish of thousands of generated histories (both configurations, cached/uncached, several parallelism settings) is compared with a reference model of the directory and a from-scratch blake3 recomputation of the canonical trie root; held = no divergence on the histories executed.",
            "Trusts blake3, the VRF output (checked in C18) and my reading of the hashing spec in akd_core/src/lib.rs (cross-validated: it reproduces the code's roots on the unchanged tree). Histories bounded by the generator (<= 40 batches, universe <= 64, a few 1000-leaf batches).",
            "DESIGN.md 6/C01"),
}

NOT_YET = {}

def main():
    props = [json.loads(l) for l in open(os.path.join(ROOT, "properties.jsonl"))]
    checks = []
    na = []
    for p in props:
        pid = p["id"]
        if pid in CLAIMED:
            cat, tech, text, note, ref = CLAIMED[pid]
            checks.append({
                "property_id": pid,
                "quick_cmd": f"./check {pid} quick",
                "thorough_cmd": f"./check {pid} thorough",
                "evidence_file": f"evidence/{pid}.json",
                "replay_cmd_template": f"./check {pid} --replay {{path}}",
                "engine": "vcheck",
                "level_claimed": {"category": cat, "text": text, "design_ref": ref},
                "level_note": note,
                "technique": tech,
            })
        else:
            na.append({"property_id": pid, "reason": NOT_YET.get(pid, "check not built yet in this revision of /verif (work in progress; the design in DESIGN.md section 6 applies)")})
    man = {
        "version": 1,
        "setup_cmd": "./setup.sh",
        "hooks": {
            "guard": "cargo feature akd/verif_hooks",
            "enable": "the harness crate (/verif/harness/Cargo.toml) enables the feature on its path dependency on /repo/akd; no RUSTFLAGS needed",
            "baseline_off_cmd": "cd /repo && cargo nextest run --workspace --no-fail-fast --tool-config-file pb:/w/lib/nextest.toml --profile pb --test-threads 8 --offline || cargo test --workspace --no-fail-fast --offline",
            "source_commits": HOOK_COMMITS,
            "add_only": True,
        },
        "engines": [{
            "name": "vcheck",
            "path": "harness/",
            "serves_properties": sorted(CLAIMED.keys()),
            "kind_free_text": "Rust harness running the real akd code (path dependency on /repo) under generated, hostile, fault-injected and schedule-controlled workloads with reference-model, soundness, differential and history oracles; sanitizer re-runs in the thorough tier",
        }],
        "checks": checks,
        "not_applicable": na,
        "notes": "All checks: ./check <ID> quick|thorough; exit 0 held, 1 violation (VIOLATION line + replay file), 2 inconclusive. Known findings: known_findings.json.",
    }
    json.dump(man, open(os.path.join(ROOT, "MANIFEST.json"), "w"), indent=1)
    print("wrote MANIFEST.json with", len(checks), "checks,", len(na), "not_applicable")

HOOK_COMMITS = []

if __name__ == "__main__":
    main()
