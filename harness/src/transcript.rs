//! A canonical transcript of everything a directory instance answers at one point in time.
//! Used differentially: the same history through two configurations (C14), before/after
//! tombstoning (C20).

use crate::checks::c13::{Ans, ROp, Reader};
use crate::common::*;
use akd::auditor::audit_verify;

#[derive(Clone, Debug, PartialEq, Eq)]
pub struct Line {
    pub key: String,
    pub val: String,
}

pub type Transcript = Vec<Line>;

fn vr(v: &VerifyResult) -> String {
    format!("(v{},e{},{})", v.version, v.epoch, hex::encode(&v.value.0))
}

pub fn render(t: &Transcript) -> String {
    t.iter().map(|l| format!("{} => {}", l.key, l.val)).collect::<Vec<_>>().join("\n")
}

pub fn digest(t: &Transcript) -> u64 {
    crate::rng::fnv(render(t).as_bytes())
}

/// first differing line of two transcripts
pub fn first_diff(a: &Transcript, b: &Transcript) -> Option<(String, String, String)> {
    for (x, y) in a.iter().zip(b.iter()) {
        if x != y {
            return Some((x.key.clone(), x.val.clone(), format!("{} => {}", y.key, y.val)));
        }
    }
    if a.len() != b.len() {
        return Some(("<length>".into(), a.len().to_string(), b.len().to_string()));
    }
    None
}

pub struct Opts {
    /// also verify histories with AllowMissingValues
    pub allow_missing: bool,
    /// hashes of epochs 0..=cur as the directory published them (audit verification)
    pub published: Vec<Digest>,
}

/// Everything the instance says about `labels` right now.
pub async fn take<TC: Configuration>(reader: &Reader<TC>, pk: &[u8], labels: &[Vec<u8>], o: &Opts) -> Transcript {
    let mut t: Transcript = vec![];
    let mut push = |k: String, v: String| t.push(Line { key: k, val: v });
    let cur = match reader.run(&ROp::EpochHash).await {
        Ok(Ans::EpochHash(eh)) => {
            push("epoch_hash".into(), format!("{} {}", eh.0, hex::encode(eh.1)));
            eh.0
        }
        Ok(_) => unreachable!(),
        Err(e) => {
            push("epoch_hash".into(), format!("ERR {}", err_kind(&e)));
            return t;
        }
    };
    for label in labels {
        let ls = hxu(label);
        match reader.run(&ROp::Lookup(label.clone())).await {
            Ok(Ans::Lookup(p, eh)) => match akd::client::lookup_verify::<TC>(pk, eh.1, eh.0, AkdLabel(label.clone()), p) {
                Ok(r) => push(format!("lookup {ls}"), format!("@{} {}", eh.0, vr(&r))),
                Err(_) => push(format!("lookup {ls}"), "VERIFY-FAIL".into()),
            },
            Ok(_) => unreachable!(),
            Err(e) => push(format!("lookup {ls}"), format!("ERR {}", err_kind(&e))),
        }
        for hp in [HistoryParams::Complete, HistoryParams::MostRecent(1), HistoryParams::MostRecent(3)] {
            match reader.run(&ROp::History(label.clone(), hp)).await {
                Ok(Ans::History(p, eh)) => {
                    let d = akd::client::key_history_verify::<TC>(pk, eh.1, eh.0, AkdLabel(label.clone()), p.clone(), HistoryVerificationParams::Default { history_params: hp });
                    push(
                        format!("history {ls} {hp:?} default"),
                        match d {
                            Ok(rs) => format!("@{} [{}]", eh.0, rs.iter().map(vr).collect::<Vec<_>>().join(",")),
                            Err(_) => "REJECTED".into(),
                        },
                    );
                    if o.allow_missing {
                        let a = akd::client::key_history_verify::<TC>(pk, eh.1, eh.0, AkdLabel(label.clone()), p, HistoryVerificationParams::AllowMissingValues { history_params: hp });
                        push(
                            format!("history {ls} {hp:?} allow-missing"),
                            match a {
                                Ok(rs) => format!("@{} [{}]", eh.0, rs.iter().map(vr).collect::<Vec<_>>().join(",")),
                                Err(_) => "REJECTED".into(),
                            },
                        );
                    }
                }
                Ok(_) => unreachable!(),
                Err(e) => push(format!("history {ls} {hp:?}"), format!("ERR {}", err_kind(&e))),
            }
        }
    }
    // a batch lookup of everything that can be looked up
    let mut ranges: Vec<(u64, u64)> = vec![(0, cur), (cur.saturating_sub(1), cur), (0, 1), (cur / 2, cur), (0, cur.saturating_sub(1)), (cur, cur), (0, cur + 1), (cur + 1, cur + 2)];
    ranges.dedup();
    for (s, e) in ranges {
        match reader.run(&ROp::Audit(s, e)).await {
            Ok(Ans::Audit(p)) => {
                let ok = (e as usize) < o.published.len() && audit_verify::<TC>(o.published[s as usize..=e as usize].to_vec(), p).await.is_ok();
                push(format!("audit {s} {e}"), if ok { "OK".into() } else { "VERIFY-FAIL".into() });
            }
            Ok(_) => unreachable!(),
            Err(e2) => push(format!("audit {s} {e}"), format!("ERR {}", err_kind(&e2))),
        }
    }
    t
}
