//! C13 — every answer names a published epoch hash and verifies against it, or errors.

use crate::common::*;
use crate::gen::history_json;
use crate::model::{Applied, Batch, Model};
use crate::mon::*;
use crate::rng::Rng;
use crate::sched::*;
use crate::with_cfg;
use crate::world::*;
use crate::xdb::{OpKind, XDb};
use akd::auditor::audit_verify;
use serde_json::{json, Value};
use std::sync::atomic::{AtomicU64, Ordering};
use std::sync::{Arc, Mutex};

#[derive(Clone, Debug)]
pub enum ROp {
    Lookup(Vec<u8>),
    BatchLookup(Vec<Vec<u8>>),
    History(Vec<u8>, HistoryParams),
    Audit(u64, u64),
    EpochHash,
}

impl ROp {
    fn kind(&self) -> &'static str {
        match self {
            ROp::Lookup(_) => "lookup",
            ROp::BatchLookup(_) => "batch_lookup",
            ROp::History(_, HistoryParams::Complete) => "history_complete",
            ROp::History(..) => "history_most_recent",
            ROp::Audit(..) => "audit",
            ROp::EpochHash => "epoch_hash",
        }
    }
}

pub enum Ans {
    Lookup(LookupProof, EpochHash),
    Batch(Vec<LookupProof>, EpochHash),
    History(HistoryProof, EpochHash),
    Audit(AppendOnlyProof),
    EpochHash(EpochHash),
}

#[derive(Clone, Copy, Debug, PartialEq, Eq, Hash)]
pub enum Inst {
    /// clone of the writer's directory (shared manager, cache and transaction log)
    WriterClone,
    /// separate read-only directory, own cached manager, same database
    RoCached,
    RoUncached,
}

impl Inst {
    fn name(&self) -> &'static str {
        match self {
            Inst::WriterClone => "writer-clone",
            Inst::RoCached => "ro-cached",
            Inst::RoUncached => "ro-uncached",
        }
    }
}

/// one of the three instance kinds behind one interface
#[derive(Clone)]
pub enum Reader<TC: Configuration> {
    W(Dir<TC>),
    R(RoDir<TC>),
}

impl<TC: Configuration> Reader<TC> {
    pub async fn run(&self, op: &ROp) -> Result<Ans, AkdError> {
        macro_rules! on {
            ($d:expr) => {
                match op {
                    ROp::Lookup(l) => $d.lookup(AkdLabel(l.clone())).await.map(|(p, e)| Ans::Lookup(p, e)),
                    ROp::BatchLookup(ls) => {
                        let v: Vec<AkdLabel> = ls.iter().map(|l| AkdLabel(l.clone())).collect();
                        $d.batch_lookup(&v).await.map(|(p, e)| Ans::Batch(p, e))
                    }
                    ROp::History(l, p) => $d.key_history(&AkdLabel(l.clone()), *p).await.map(|(p, e)| Ans::History(p, e)),
                    ROp::Audit(s, e) => $d.audit(*s, *e).await.map(Ans::Audit),
                    ROp::EpochHash => $d.get_epoch_hash().await.map(Ans::EpochHash),
                }
            };
        }
        match self {
            Reader::W(d) => on!(d),
            Reader::R(d) => on!(d),
        }
    }
}

/// The oracle.  `published[e]` = hash the writer returned for epoch e; `model` has all writer batches
/// applied.  Returns the epoch the answer was served from.  The membership test
/// "(epoch, hash) in published" is evaluated FIRST and independently of proof verification.
pub async fn judge<TC: Configuration>(op: &ROp, ans: Ans, published: &[Digest], model: &Model, pk: &[u8]) -> Result<u64, (String, String)> {
    let in_p = |eh: &EpochHash| -> Result<(), (String, String)> {
        match published.get(eh.0 as usize) {
            Some(h) if *h == eh.1 => Ok(()),
            Some(h) => Err(("pair-not-published".into(), format!("answer names ({}, {}) but epoch {} was published with hash {}", eh.0, hx(&eh.1), eh.0, hx(h)))),
            None => Err(("pair-not-published".into(), format!("answer names epoch {} which was never published", eh.0))),
        }
    };
    match (op, ans) {
        (ROp::EpochHash, Ans::EpochHash(eh)) => {
            in_p(&eh)?;
            Ok(eh.0)
        }
        (ROp::Lookup(label), Ans::Lookup(p, eh)) => {
            in_p(&eh)?;
            let vr = akd::client::lookup_verify::<TC>(pk, eh.1, eh.0, AkdLabel(label.clone()), p).map_err(|e| ("proof-rejected".to_string(), format!("lookup proof does not verify against the pair it came with: {e}")))?;
            match model.latest(label, eh.0) {
                Some(w) if ver_matches(w, &vr) => Ok(eh.0),
                w => Err(("result-mismatch".into(), format!("lookup verified to {} but the model at epoch {} says {:?}", vr_json(&vr), eh.0, w.map(ver_json)))),
            }
        }
        (ROp::BatchLookup(labels), Ans::Batch(ps, eh)) => {
            in_p(&eh)?;
            if ps.len() != labels.len() {
                return Err(("result-mismatch".into(), "batch_lookup returned a wrong number of proofs".into()));
            }
            for (label, p) in labels.iter().zip(ps.into_iter()) {
                let vr = akd::client::lookup_verify::<TC>(pk, eh.1, eh.0, AkdLabel(label.clone()), p).map_err(|e| ("proof-rejected".to_string(), format!("batch lookup proof does not verify: {e}")))?;
                match model.latest(label, eh.0) {
                    Some(w) if ver_matches(w, &vr) => {}
                    w => return Err(("result-mismatch".into(), format!("batch lookup verified to {} but the model says {:?}", vr_json(&vr), w.map(ver_json)))),
                }
            }
            Ok(eh.0)
        }
        (ROp::History(label, hp), Ans::History(p, eh)) => {
            in_p(&eh)?;
            let rs = akd::client::key_history_verify::<TC>(pk, eh.1, eh.0, AkdLabel(label.clone()), p, HistoryVerificationParams::Default { history_params: *hp })
                .map_err(|e| ("proof-rejected".to_string(), format!("history proof does not verify against the pair it came with: {e}")))?;
            let full = model.history(label, eh.0);
            let want: Vec<_> = match hp {
                HistoryParams::Complete => full,
                HistoryParams::MostRecent(n) => full.into_iter().take(*n).collect(),
            };
            if rs.len() == want.len() && rs.iter().zip(want.iter()).all(|(r, w)| ver_matches(w, r)) {
                Ok(eh.0)
            } else {
                Err(("result-mismatch".into(), format!("history verified to {:?} but the model at epoch {} says {:?}", rs.iter().map(vr_json).collect::<Vec<_>>(), eh.0, want.iter().map(ver_json).collect::<Vec<_>>())))
            }
        }
        (ROp::Audit(s, e), Ans::Audit(p)) => {
            if *e as usize >= published.len() || s >= e {
                return Err(("pair-not-published".into(), format!("audit({s},{e}) was answered although epoch {e} was never published")));
            }
            audit_verify::<TC>(published[*s as usize..=*e as usize].to_vec(), p)
                .await
                .map_err(|err| ("proof-rejected".to_string(), format!("audit({s},{e}) does not verify against the published hashes: {err}")))?;
            Ok(*e)
        }
        _ => Err(("harness".into(), "answer kind does not match op".into())),
    }
}

fn labels3() -> Vec<Vec<u8>> {
    vec![b"x".to_vec(), b"y".to_vec(), b"z".to_vec()]
}

fn mk_batch(rng: &mut Rng, tag: &str, counter: &mut u64) -> Batch {
    let k = rng.range(1, 3) as usize;
    let mut ls = labels3();
    rng.shuffle(&mut ls);
    ls.truncate(k);
    ls.into_iter()
        .map(|l| {
            *counter += 1;
            (l, format!("{tag}:{counter}").into_bytes())
        })
        .collect()
}

fn random_op(rng: &mut Rng, max_epoch: u64) -> ROp {
    let ls = labels3();
    match rng.below(10) {
        0..=2 => ROp::Lookup(rng.pick(&ls).clone()),
        3 => ROp::BatchLookup(vec![ls[0].clone(), rng.pick(&ls[1..]).clone()]),
        4..=5 => ROp::History(rng.pick(&ls).clone(), HistoryParams::Complete),
        6 => ROp::History(rng.pick(&ls).clone(), HistoryParams::MostRecent(rng.range(1, 3) as usize)),
        7..=8 => {
            let e = rng.range(1, max_epoch.max(1));
            ROp::Audit(rng.below(e), e)
        }
        _ => ROp::EpochHash,
    }
}

#[derive(Clone)]
pub struct Scn {
    cfg: Cfg,
    writer_cache: CacheOpt,
    prefix: Vec<Batch>,
    writes: Vec<Batch>,
    readers: Vec<(Inst, Vec<ROp>)>,
    poller: bool,
    explicit_flush: bool,
    exit_gates: bool,
    /// whether the cached read-only instance has served requests (warm cache) before the schedule starts
    prime: bool,
    /// flush the writer's cache before the schedule (as after a restart / expiry): requests on its clones
    /// have to fetch nodes from the database while publishes commit
    cold_writer_cache: bool,
}

impl Scn {
    /// cold cached read-only instance + change poller + responses in flight: the poller's flush racing
    /// with requests that still have to go to the database
    fn cold(rng: &mut Rng) -> Self {
        let mut s = Scn::random(rng, Some((Inst::RoCached, 6)));
        let ls = labels3();
        let second = match rng.below(3) {
            0 => ROp::Lookup(rng.pick(&ls).clone()),
            1 => ROp::History(rng.pick(&ls).clone(), HistoryParams::Complete),
            _ => ROp::EpochHash,
        };
        let first = if rng.chance(2, 3) { ROp::EpochHash } else { ROp::Lookup(rng.pick(&ls).clone()) };
        s.readers = vec![(Inst::RoCached, vec![first, second, ROp::EpochHash])];
        s.poller = true;
        s.explicit_flush = false;
        s.exit_gates = true;
        s.prime = false;
        s
    }
    /// requests on a clone of a CACHED publisher whose cache is cold, responses in flight across commits
    fn fill_race(rng: &mut Rng) -> Self {
        let mut s = Scn::random(rng, Some((Inst::WriterClone, 0)));
        let ls = labels3();
        let mut ops = vec![if rng.chance(1, 2) { ROp::Lookup(rng.pick(&ls).clone()) } else { ROp::History(rng.pick(&ls).clone(), HistoryParams::Complete) }];
        ops.push(ROp::EpochHash);
        ops.push(ROp::Lookup(rng.pick(&ls).clone()));
        s.readers = vec![(Inst::WriterClone, ops)];
        s.writer_cache = CacheOpt::Default;
        s.poller = false;
        s.explicit_flush = false;
        s.exit_gates = true;
        s.cold_writer_cache = true;
        let mut c = 100u64;
        s.writes = (0..rng.range(1, 2)).map(|i| mk_batch(rng, &format!("f{i}"), &mut c)).collect();
        s
    }
    fn random(rng: &mut Rng, single_op: Option<(Inst, usize)>) -> Self {
        let mut counter = 0u64;
        // prefix publishes all three labels so that readers have something to ask for
        let mut prefix: Vec<Batch> = vec![labels3().into_iter().map(|l| (l, b"p0".to_vec())).collect()];
        for i in 0..rng.below(3) {
            prefix.push(mk_batch(rng, &format!("p{}", i + 1), &mut counter));
        }
        let n_writes = rng.range(1, 3) as usize;
        let writes: Vec<Batch> = (0..n_writes).map(|i| mk_batch(rng, &format!("w{i}"), &mut counter)).collect();
        let max_epoch = (prefix.len() + writes.len()) as u64;
        let readers = match single_op {
            Some((inst, k)) => {
                let ls = labels3();
                let ops = [
                    ROp::Lookup(ls[0].clone()),
                    ROp::BatchLookup(vec![ls[0].clone(), ls[1].clone()]),
                    ROp::History(ls[0].clone(), HistoryParams::Complete),
                    ROp::History(ls[1].clone(), HistoryParams::MostRecent(2)),
                    ROp::Audit(0, prefix.len() as u64),
                    ROp::Audit(prefix.len() as u64 - 1, prefix.len() as u64),
                    ROp::EpochHash,
                ];
                vec![(inst, vec![ops[k % ops.len()].clone()])]
            }
            None => {
                let n = rng.range(1, 3) as usize;
                (0..n)
                    .map(|_| {
                        let inst = *rng.pick(&[Inst::WriterClone, Inst::RoCached, Inst::RoUncached]);
                        let k = rng.range(1, 3) as usize;
                        (inst, (0..k).map(|_| random_op(rng, max_epoch)).collect())
                    })
                    .collect()
            }
        };
        let has_ro_cached = readers.iter().any(|r| r.0 == Inst::RoCached);
        Scn {
            cfg: if rng.chance(1, 2) { Cfg::Wa } else { Cfg::Exp },
            writer_cache: if rng.chance(1, 2) { CacheOpt::None } else { CacheOpt::Default },
            prefix,
            writes: if single_op.is_some() { vec![mk_batch(rng, "w", &mut counter)] } else { writes },
            readers,
            poller: has_ro_cached && rng.chance(1, 2),
            explicit_flush: has_ro_cached && rng.chance(1, 6),
            exit_gates: rng.chance(1, 3),
            prime: rng.chance(3, 4),
            cold_writer_cache: rng.chance(1, 4),
        }
    }
    fn json(&self) -> Value {
        json!({"cfg": self.cfg.name(), "writer_cache": self.writer_cache.name(), "prefix": history_json(&self.prefix), "writes": history_json(&self.writes),
               "readers": self.readers.iter().map(|(i, ops)| json!({"instance": i.name(), "ops": ops.iter().map(|o| format!("{o:?}")).collect::<Vec<_>>()})).collect::<Vec<_>>(),
               "poller": self.poller, "explicit_flush": self.explicit_flush, "exit_gates": self.exit_gates, "ro_cache_warm": self.prime, "writer_cache_cold": self.cold_writer_cache})
    }
}

thread_local! {
    static DIAG: std::cell::RefCell<Value> = const { std::cell::RefCell::new(Value::Null) };
}

struct ReaderRec {
    inst: Inst,
    op: ROp,
    t_start: u64,
    t_end: u64,
    ans: Option<Result<Ans, String>>,
}

pub fn run(ctx: &Ctx) -> i32 {
    let mon = Mon::new();
    if ctx.mode.as_deref() == Some("stress") {
        par_cases(ctx, &mon, "stress", 4, |cc, rng, l| {
            let cfg = if rng.chance(1, 2) { Cfg::Wa } else { Cfg::Exp };
            with_cfg!(cfg, TC, { stress::<TC>(ctx, cc, rng, l) });
        });
        return finish(ctx, &mon, Spec::new("exploration", "multi-thread stress only (sanitizer sub-run)").need("stress_answers_judged", 100));
    }
    // ---- exhaustive bound-1: one reader op x one publish, every op kind x instance kind
    let combos = 3 * 7;
    par_cases(ctx, &mon, "dfs", combos * ctx.tier.pick(1, 3), |cc, rng, l| {
        let inst = [Inst::WriterClone, Inst::RoCached, Inst::RoUncached][(cc.idx % 3) as usize];
        let k = ((cc.idx / 3) % 7) as usize;
        let mut scn = Scn::random(rng, Some((inst, k)));
        scn.poller = false;
        scn.explicit_flush = false;
        let mut dfs = Dfs::new(ctx.tier.pick(1, 2));
        let cap = ctx.tier.pick(400, 6000);
        let mut n = 0;
        loop {
            with_cfg!(scn.cfg, TC, { run_one::<TC>(&scn, &mut dfs, l, "dfs") });
            n += 1;
            l.count("dfs_schedules", 1);
            if !dfs.advance() || n >= cap {
                break;
            }
        }
        if cc.idx < 2 {
            l.sample(json!({"case": cc.id, "scenario": scn.json(), "schedules": n}));
        }
    });
    // ---- random / PCT schedules over richer scenarios
    let n_rand = ctx.tier.pick(200, 4000);
    par_cases(ctx, &mon, "rand", n_rand, |cc, rng, l| {
        let scn = Scn::random(rng, None);
        for i in 0..ctx.tier.pick(20, 50) {
            if i % 2 == 0 {
                let mut r2 = Rng::derive(cc.idx, "c13-rand", i);
                let mut st = RandomStrategy(&mut r2);
                with_cfg!(scn.cfg, TC, { run_one::<TC>(&scn, &mut st, l, "random") });
            } else {
                let mut st = PctStrategy::new(rng.next_u64(), 3, 60);
                with_cfg!(scn.cfg, TC, { run_one::<TC>(&scn, &mut st, l, "pct") });
            }
            l.count("random_schedules", 1);
        }
    });
    // ---- cold cache of a cached publisher, requests on its clone with responses in flight across commits
    par_cases(ctx, &mon, "fill", ctx.tier.pick(64, 600), |cc, rng, l| {
        let scn = Scn::fill_race(rng);
        for i in 0..ctx.tier.pick(40, 100) {
            if i % 2 == 0 {
                let mut r2 = Rng::derive(cc.idx, "c13-fill", i);
                let mut st = RandomStrategy(&mut r2);
                with_cfg!(scn.cfg, TC, { run_one::<TC>(&scn, &mut st, l, "random") });
            } else {
                let mut st = PctStrategy::new(rng.next_u64(), 4, 80);
                with_cfg!(scn.cfg, TC, { run_one::<TC>(&scn, &mut st, l, "pct") });
            }
            l.count("fill_race_schedules", 1);
        }
    });
    // ---- cold cached reader + poller + responses in flight
    let n_cold = ctx.tier.pick(64, 600);
    par_cases(ctx, &mon, "cold", n_cold, |cc, rng, l| {
        let scn = Scn::cold(rng);
        for i in 0..ctx.tier.pick(40, 100) {
            if i % 2 == 0 {
                let mut r2 = Rng::derive(cc.idx, "c13-cold", i);
                let mut st = RandomStrategy(&mut r2);
                with_cfg!(scn.cfg, TC, { run_one::<TC>(&scn, &mut st, l, "random") });
            } else {
                let mut st = PctStrategy::new(rng.next_u64(), 4, 80);
                with_cfg!(scn.cfg, TC, { run_one::<TC>(&scn, &mut st, l, "pct") });
            }
            l.count("cold_reader_schedules", 1);
        }
    });
    // ---- lag: a reader instance answers after storage moved on without it being told
    let n_lag = ctx.tier.pick(48, 400);
    par_cases(ctx, &mon, "lag", n_lag, |cc, rng, l| {
        let cfg = if rng.chance(1, 2) { Cfg::Wa } else { Cfg::Exp };
        with_cfg!(cfg, TC, { block_on(lag_case::<TC>(cc, rng, l)) });
    });
    // ---- multi-thread stress
    par_cases(ctx, &mon, "stress", ctx.tier.pick(2, 8), |cc, rng, l| {
        let cfg = if rng.chance(1, 2) { Cfg::Wa } else { Cfg::Exp };
        with_cfg!(cfg, TC, { stress::<TC>(ctx, cc, rng, l) });
    });
    finish(
        ctx,
        &mon,
        Spec::new(
            "exploration",
            "one writer (1-3 publishes) + 1-3 readers issuing lookup / batch_lookup / key_history / audit / get_epoch_hash on (a) a clone of the writer's directory, (b) a separate cached read-only directory, (c) the same uncached; optional change poller (clock advanced as a scheduler action) and explicit cache flush; schedules at storage-operation granularity: exhaustive preemption bound 1 (quick) / 2 (thorough) for one reader op x one publish over every op kind x instance kind, random + PCT beyond. Lag runs: reader instances (cached/uncached, +-poller) answer after storage advanced by 0,1,2,3,5 epochs. Multi-thread stress. Oracle per Ok answer: (epoch, hash) is a pair the writer returned — checked first and independently — the proof verifies against it, and the verified result equals the model at that epoch; after a poll signal later requests are answered from an epoch at least as new. Errors are allowed and counted. distinct = interleavings keyed by (op kind, instance kind) / lag cases; non-trivial = a reader op overlaps a publish, or lag >= 1",
        )
        .need("reader_answers_judged", ctx.tier.pick(3000, 60000))
        .need("reader_ops_overlapping_a_publish", ctx.tier.pick(1000, 20000))
        .need("lag_answers_judged", ctx.tier.pick(500, 5000))
        .need("poll_signals_observed", ctx.tier.pick(20, 300)),
    )
}

fn run_one<TC: Configuration>(scn: &Scn, strategy: &mut dyn Strategy, l: &mut Local, kind: &str) {
    let scn = scn.clone();
    let period = std::time::Duration::from_millis(100);
    let res = in_runtime(async {
        let db = XDb::new();
        let Ok(mut w) = World::<TC>::over(db.clone(), scn.writer_cache, AzksParallelismConfig::disabled(), KeyVrf::hard_coded()).await else {
            return Err("Directory::new failed".to_string());
        };
        for b in &scn.prefix {
            let (a, r) = w.publish(b).await;
            if matches!(a, Applied::Epoch(..)) && r.is_err() {
                return Err("prefix publish failed".into());
            }
        }
        if scn.cold_writer_cache {
            // node and value entries gone (as after expiry); the epoch record never expires and a restarted
            // directory reads it first thing, so its slot is warm.  (An explicit flush of the publisher's
            // manager with requests in flight is the unlocked-flush case again, which is exploratory only.)
            w.mgr.flush_cache().await;
            let _ = w.mgr.get_committed::<Azks>(&akd::append_only_zks::DEFAULT_AZKS_KEY).await;
        }
        let clock = Arc::new(AtomicU64::new(1));
        // reader instances
        let ro_db = db.sibling(); // same storage, its own instrumentation (op log of the poller)
        ro_db.ctl.set_log(true);
        let ro_cached_mgr = CacheOpt::Default.manager(ro_db.clone());
        let ro_cached = RoDir::<TC>::new(ro_cached_mgr.clone(), w.vrf.clone(), AzksParallelismConfig::disabled()).await.map_err(|e| e.to_string())?;
        // prime the cached reader the way a serving instance would be
        if scn.prime {
            let _ = ro_cached.get_epoch_hash().await;
            let _ = ro_cached.lookup(AkdLabel(b"x".to_vec())).await;
        }
        let ro_uncached = RoDir::<TC>::new(CacheOpt::None.manager(db.clone()), w.vrf.clone(), AzksParallelismConfig::disabled()).await.map_err(|e| e.to_string())?;
        let recs: Arc<Mutex<Vec<ReaderRec>>> = Arc::new(Mutex::new(vec![]));
        let writer_results: Arc<Mutex<Vec<Result<EpochHash, String>>>> = Arc::new(Mutex::new(vec![]));
        let writer_span: Arc<Mutex<Vec<(u64, u64)>>> = Arc::new(Mutex::new(vec![]));
        let signals: Arc<Mutex<Vec<(u64, u64)>>> = Arc::new(Mutex::new(vec![])); // (time, epoch the poller loaded)
        let mut r = Runner::new(scn.exit_gates);
        let gate = r.gate();
        db.ctl.set_gate(Some(gate.clone()));
        ro_db.ctl.set_gate(Some(gate));
        // writer = task 1
        {
            let d = w.dir.clone();
            let batches = scn.writes.clone();
            let wr = writer_results.clone();
            let ws = writer_span.clone();
            let clock = clock.clone();
            r.client(1, async move {
                for b in batches {
                    let t0 = clock.fetch_add(1, Ordering::SeqCst);
                    let x = d.publish(akd_batch(&b)).await;
                    let t1 = clock.fetch_add(1, Ordering::SeqCst);
                    ws.lock().unwrap().push((t0, t1));
                    wr.lock().unwrap().push(x.map_err(|e| e.to_string()));
                }
            });
        }
        // readers = tasks 2..
        for (i, (inst, ops)) in scn.readers.iter().enumerate() {
            let reader = match inst {
                Inst::WriterClone => Reader::W(w.dir.clone()),
                Inst::RoCached => Reader::R(ro_cached.clone()),
                Inst::RoUncached => Reader::R(ro_uncached.clone()),
            };
            let (inst, ops, recs, clock) = (*inst, ops.clone(), recs.clone(), clock.clone());
            r.client(i as u32 + 2, async move {
                for op in ops {
                    let t0 = clock.fetch_add(1, Ordering::SeqCst);
                    let a = reader.run(&op).await;
                    let t1 = clock.fetch_add(1, Ordering::SeqCst);
                    recs.lock().unwrap().push(ReaderRec { inst, op, t_start: t0, t_end: t1, ans: Some(a.map_err(|e| e.to_string())) });
                }
            });
        }
        let poller_id = 50u32;
        if scn.poller {
            let d = ro_cached.clone();
            let (tx, mut rx) = tokio::sync::mpsc::channel::<()>(16);
            r.daemon(poller_id, async move {
                let _ = d.poll_for_azks_changes(period, Some(tx)).await;
            });
            r.clock_period = Some(period);
            r.max_clock_advances = 4;
            // listener (untagged): records when the signal arrived and which epoch the poller had loaded
            let (signals, clock, ctl) = (signals.clone(), clock.clone(), ro_db.ctl.clone());
            tokio::spawn(async move {
                while rx.recv().await.is_some() {
                    let loaded = ctl.log.lock().unwrap().iter().rev().find(|o| o.info.task == poller_id && o.info.kind == OpKind::Get && o.info.azks && o.ok).and_then(|o| o.azks_epoch);
                    if let Some(e) = loaded {
                        signals.lock().unwrap().push((clock.fetch_add(1, Ordering::SeqCst), e));
                    }
                }
            });
        }
        if scn.explicit_flush {
            let m = ro_cached_mgr.clone();
            r.client(60, async move {
                m.flush_cache().await;
            });
        }
        let out = r.drive(strategy).await;
        db.ctl.set_gate(None);
        ro_db.ctl.set_gate(None);
        // published set: prefix + what the writer returned, in order
        let mut model = w.model.clone();
        let mut published = w.published.clone();
        for (b, res) in scn.writes.iter().zip(writer_results.lock().unwrap().iter()) {
            match res {
                Ok(eh) => {
                    if eh.0 as usize == published.len() {
                        model.apply(b);
                        published.push(eh.1);
                    }
                }
                Err(e) => return Err(format!("writer publish failed: {e}")),
            }
        }
        let spans = writer_span.lock().unwrap().clone();
        let sigs = signals.lock().unwrap().clone();
        let mut verdicts = vec![];
        let recs = std::mem::take(&mut *recs.lock().unwrap());
        for rec in recs {
            let overlaps = spans.iter().any(|(a, b)| !(rec.t_end < *a || *b < rec.t_start));
            let v = match rec.ans {
                Some(Ok(ans)) => match judge::<TC>(&rec.op, ans, &published, &model, &w.pk).await {
                    Ok(epoch) => {
                        // poll monotonicity: requests started after a signal are at least that new
                        let stale = if rec.inst == Inst::RoCached && !matches!(rec.op, ROp::Audit(..)) { sigs.iter().filter(|(t, _)| *t < rec.t_start).map(|(_, e)| *e).max().filter(|e| epoch < *e) } else { None };
                        match stale {
                            Some(e) => Err(("poll-monotonicity".to_string(), format!("the poller had signalled epoch {e} before this request started, but it was answered from epoch {epoch}"))),
                            None => Ok(Some(epoch)),
                        }
                    }
                    Err(x) => Err(x),
                },
                Some(Err(_)) => Ok(None),
                None => Ok(None),
            };
            verdicts.push((rec.inst, rec.op, overlaps, v));
        }
        // diagnostics for replay files: what storage and the writer's manager hold for the root now
        let root_key = NodeKey(NodeLabel::root());
        let describe = |r: Result<DbRecord, StorageError>| match r {
            Ok(DbRecord::TreeNode(t)) => format!("latest(e{}, {}) previous({:?})", t.latest_node.last_epoch, hx(&t.latest_node.hash.0), t.previous_node.as_ref().map(|p| (p.last_epoch, hx(&p.hash.0)))),
            other => format!("{:?}", other.map(|_| "other record")),
        };
        let diag = serde_json::json!({
            "published": published.iter().map(|h| hx(h)).collect::<Vec<_>>(),
            "root_in_database": describe(db.inner.get::<TreeNodeWithPreviousValue>(&root_key).await),
            "root_through_writer_manager": describe(w.mgr.get::<TreeNodeWithPreviousValue>(&root_key).await),
            "epoch_record_through_writer_manager": format!("{:?}", w.mgr.get_committed::<Azks>(&akd::append_only_zks::DEFAULT_AZKS_KEY).await.ok()),
        });
        DIAG.with(|d| *d.borrow_mut() = diag);
        Ok((out, verdicts, sigs.len(), published.len() as u64 - 1))
    });
    l.eval(1);
    l.count("schedules", 1);
    match res {
        Err(e) => l.inconclusive(format!("C13 harness: {e}")),
        Ok((out, verdicts, nsig, _final_epoch)) => {
            if out.stuck {
                l.violation("C13:stuck", "schedule got stuck: some task neither finished nor reached a storage operation", json!({"scenario": scn.json(), "schedule": out.schedule(), "strategy": kind}));
                return;
            }
            l.count("poll_signals_observed", nsig as u64);
            let ih = out.interleaving_hash();
            for (inst, op, overlaps, v) in verdicts {
                l.count("reader_answers_judged", 1);
                if overlaps {
                    l.count("reader_ops_overlapping_a_publish", 1);
                }
                l.case_h(ih ^ crate::rng::fnv(format!("{}{}", op.kind(), inst.name()).as_bytes()), overlaps);
                match v {
                    Ok(Some(_)) => l.count("reader_answers_ok_and_consistent", 1),
                    Ok(None) => l.count("reader_answers_error", 1),
                    Err((obs, msg)) if obs == "harness" => l.inconclusive(msg),
                    Err((obs, _)) if scn.explicit_flush => {
                        // exploratory only: StorageManager::flush_cache() called directly on a read-only instance's
                        // manager, i.e. NOT through the directory's reader/flush lock, while a request is in flight.
                        // The in-flight request (which already holds the old epoch) re-populates the cache with the
                        // records of its view while the epoch slot stays empty; the next request reads the new epoch
                        // from storage and meets those records.  The directory's own flush (poller) takes the lock
                        // exactly to exclude this, so it is outside the property; counted, not judged.
                        l.count(&format!("exploratory_explicit_unlocked_flush_{obs}_diagnostic"), 1);
                    }
                    Err((obs, msg)) => {
                        l.violation(
                            format!("C13:{obs}/{}/{}/concurrent{}", op.kind(), inst.name(), if scn.explicit_flush { "+explicit-flush" } else { "" }),
                            format!("{} on {} concurrent with a publish: {msg}", op.kind(), inst.name()),
                            json!({"scenario": scn.json(), "strategy": kind, "op": format!("{op:?}"), "instance": inst.name(), "schedule": out.schedule(), "state_afterwards": DIAG.with(|d| d.borrow().clone()),
                                   "trace": out.trace.iter().map(|(t, d)| format!("{t}:{d}")).collect::<Vec<_>>()}),
                        );
                    }
                }
            }
        }
    }
}

/// sequential, deterministic: the writer advances storage by `lag` epochs without telling the reader
async fn lag_case<TC: Configuration>(cc: &CaseCtx, rng: &mut Rng, l: &mut Local) {
    let db = XDb::new();
    let Ok(mut w) = World::<TC>::over(db.clone(), CacheOpt::None, AzksParallelismConfig::disabled(), KeyVrf::hard_coded()).await else {
        l.inconclusive("Directory::new failed");
        return;
    };
    let mut counter = 0u64;
    let mut all: Vec<Batch> = vec![labels3().into_iter().map(|lb| (lb, b"p0".to_vec())).collect()];
    for i in 0..rng.below(3) {
        all.push(mk_batch(rng, &format!("p{i}"), &mut counter));
    }
    for b in &all {
        w.publish(b).await;
    }
    let inst = *rng.pick(&[Inst::RoCached, Inst::RoUncached, Inst::WriterClone]);
    let with_poller = inst == Inst::RoCached && rng.chance(1, 3);
    let lag = *rng.pick(&[0u64, 1, 2, 3, 5]);
    let reader = match inst {
        Inst::RoCached => Reader::R(RoDir::<TC>::new(CacheOpt::Default.manager(db.clone()), w.vrf.clone(), AzksParallelismConfig::disabled()).await.unwrap()),
        Inst::RoUncached => Reader::R(RoDir::<TC>::new(CacheOpt::None.manager(db.clone()), w.vrf.clone(), AzksParallelismConfig::disabled()).await.unwrap()),
        Inst::WriterClone => {
            // a second *Directory* instance with its own cached manager over the same storage
            Reader::W(Dir::<TC>::new(CacheOpt::Default.manager(db.clone()), w.vrf.clone(), AzksParallelismConfig::disabled()).await.unwrap())
        }
    };
    // the instance serves some requests at its current epoch (fills its cache)
    let e0 = w.model.epoch;
    let mut ops: Vec<ROp> = vec![ROp::EpochHash];
    for lb in labels3() {
        ops.push(ROp::Lookup(lb.clone()));
        ops.push(ROp::History(lb.clone(), HistoryParams::Complete));
        ops.push(ROp::History(lb, HistoryParams::MostRecent(2)));
    }
    ops.push(ROp::BatchLookup(labels3()));
    ops.push(ROp::Audit(0, e0));
    if e0 >= 2 {
        ops.push(ROp::Audit(e0 - 1, e0));
    }
    let primed = rng.chance(3, 4);
    if primed {
        for op in &ops {
            let _ = reader.run(op).await;
        }
    }
    let poll_handle = if with_poller {
        if let Reader::R(d) = &reader {
            let d = d.clone();
            Some(tokio::spawn(async move {
                let _ = d.poll_for_azks_changes(std::time::Duration::from_millis(2), None).await;
            }))
        } else {
            None
        }
    } else {
        None
    };
    for i in 0..lag {
        let b = mk_batch(rng, &format!("lag{i}"), &mut counter);
        w.publish(&b).await;
        all.push(b);
    }
    if with_poller {
        tokio::time::sleep(std::time::Duration::from_millis(8)).await;
    }
    for op in &ops {
        l.eval(1);
        l.count("lag_answers_judged", 1);
        l.count("reader_answers_judged", 1);
        let name = format!("{}/{}{}/lag={}", op.kind(), inst.name(), if with_poller { "+poller" } else { "" }, lag);
        l.case(name.as_bytes(), lag >= 1);
        match reader.run(op).await {
            Err(_) => l.count("lag_answers_error", 1),
            Ok(ans) => match judge::<TC>(op, ans, &w.published, &w.model, &w.pk).await {
                Ok(ep) => {
                    l.count("lag_answers_ok_and_consistent", 1);
                    if ep < w.model.epoch {
                        l.count("lag_answers_served_from_older_published_epoch", 1);
                    }
                }
                Err((obs, msg)) => {
                    let inst_name = if inst == Inst::WriterClone { "second-directory-cached" } else { inst.name() };
                    l.violation(
                        format!("C13:{obs}/{}/{}/lag={}", op.kind(), inst_name, if lag >= 2 { ">=2".to_string() } else { lag.to_string() }),
                        format!("{} on a {}{} instance {lag} epoch(s) behind storage: {msg}", op.kind(), inst_name, if primed { " (warm cache)" } else { "" }),
                        json!({"cfg": cfg_of::<TC>().name(), "instance": inst_name, "lag": lag, "poller": with_poller, "primed": primed, "op": format!("{op:?}"),
                               "reader_epoch": e0, "storage_epoch": w.model.epoch, "history": history_json(&all)}),
                    );
                }
            },
        }
    }
    if let Some(h) = poll_handle {
        h.abort();
    }
    if cc.idx < 2 {
        l.sample(json!({"case": cc.id, "kind": "lag", "instance": inst.name(), "lag": lag, "poller": with_poller}));
    }
}

fn stress<TC: Configuration>(ctx: &Ctx, cc: &CaseCtx, rng: &mut Rng, l: &mut Local) {
    let rt = tokio::runtime::Builder::new_multi_thread().worker_threads(6).enable_time().build().expect("rt");
    let seed = rng.next_u64();
    let n_pub = ctx.tier.pick(40, 200);
    let writer_cache = if rng.chance(1, 2) { CacheOpt::None } else { CacheOpt::Default };
    type Rec = (Inst, ROp, Result<Ans, String>);
    let out: Result<(Vec<Rec>, Vec<Digest>, Model, Vec<u8>), String> = rt.block_on(async {
        let db = XDb::new();
        *db.ctl.jitter.lock().unwrap() = Some(Rng::new(seed));
        let mut w = World::<TC>::over(db.clone(), writer_cache, AzksParallelismConfig::default(), KeyVrf::hard_coded()).await.map_err(|e| e.to_string())?;
        let first: Batch = labels3().into_iter().map(|lb| (lb, b"p0".to_vec())).collect();
        w.publish(&first).await;
        let ro_cached = RoDir::<TC>::new(CacheOpt::Default.manager(db.clone()), w.vrf.clone(), AzksParallelismConfig::default()).await.map_err(|e| e.to_string())?;
        let ro_uncached = RoDir::<TC>::new(CacheOpt::None.manager(db.clone()), w.vrf.clone(), AzksParallelismConfig::default()).await.map_err(|e| e.to_string())?;
        let poll = {
            let d = ro_cached.clone();
            tokio::spawn(async move {
                let _ = d.poll_for_azks_changes(std::time::Duration::from_millis(1), None).await;
            })
        };
        let stop = Arc::new(std::sync::atomic::AtomicBool::new(false));
        let mut readers = vec![];
        for i in 0..6u64 {
            let (inst, reader) = match i % 3 {
                0 => (Inst::WriterClone, Reader::W(w.dir.clone())),
                1 => (Inst::RoCached, Reader::R(ro_cached.clone())),
                _ => (Inst::RoUncached, Reader::R(ro_uncached.clone())),
            };
            let stop = stop.clone();
            let mut rr = Rng::derive(seed, "stress-reader", i);
            readers.push(tokio::spawn(async move {
                let mut out: Vec<Rec> = vec![];
                while !stop.load(Ordering::SeqCst) && out.len() < 400 {
                    let op = random_op(&mut rr, 3);
                    let a = reader.run(&op).await;
                    out.push((inst, op, a.map_err(|e| e.to_string())));
                    tokio::task::yield_now().await;
                }
                out
            }));
        }
        let mut counter = 0u64;
        let mut wr = Rng::derive(seed, "stress-writer", 0);
        for i in 0..n_pub {
            let b = mk_batch(&mut wr, &format!("s{i}"), &mut counter);
            let (a, r) = w.publish(&b).await;
            if matches!(a, Applied::Epoch(..)) && r.is_err() {
                stop.store(true, Ordering::SeqCst);
                return Err(format!("writer publish failed under stress: {:?}", r.err().map(|e| e.to_string())));
            }
            tokio::task::yield_now().await;
        }
        stop.store(true, Ordering::SeqCst);
        let mut all = vec![];
        for h in readers {
            all.extend(h.await.map_err(|e| e.to_string())?);
        }
        poll.abort();
        *db.ctl.jitter.lock().unwrap() = None;
        Ok((all, w.published.clone(), w.model.clone(), w.pk.clone()))
    });
    match out {
        Err(e) => l.inconclusive(format!("C13 stress harness: {e}")),
        Ok((recs, published, model, pk)) => {
            let total = recs.len();
            let mut errs = 0;
            for (inst, op, a) in recs {
                l.eval(1);
                l.count("reader_answers_judged", 1);
                l.count("stress_answers_judged", 1);
                match a {
                    Err(_) => errs += 1,
                    Ok(ans) => {
                        // audits in the stress run may ask for epochs beyond what existed at that time: refused is fine
                        match block_on(judge::<TC>(&op, ans, &published, &model, &pk)) {
                            Ok(_) => l.count("reader_answers_ok_and_consistent", 1),
                            Err((obs, msg)) => l.violation(
                                format!("C13:{obs}/{}/{}/stress", op.kind(), inst.name()),
                                format!("multi-thread stress: {} on {}: {msg}", op.kind(), inst.name()),
                                json!({"cfg": cfg_of::<TC>().name(), "jitter_seed": seed, "writer_cache": writer_cache.name(), "op": format!("{op:?}")}),
                            ),
                        }
                    }
                }
            }
            l.count("reader_answers_error", errs);
            l.case(format!("stress/{}", cc.idx).as_bytes(), true);
            if total > 0 && errs * 10 > total as u64 * 9 {
                l.inconclusive("more than 90% of the reader calls in the stress run returned errors");
            }
        }
    }
}
