pub mod histcase;
pub mod c01;
pub mod c02;
pub mod c03;
pub mod c04;
pub mod c05;
pub mod c06;
pub mod c07;
