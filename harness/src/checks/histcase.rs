//! A generated history together with the configuration matrix point it runs under.

use crate::common::*;
use crate::gen::{gen_history, Flavor, GenOpts, Generated};
use crate::rng::Rng;
use crate::world::CacheOpt;

pub struct HistCase {
    pub cfg: Cfg,
    pub cache: CacheOpt,
    pub par: AzksParallelismConfig,
    pub hist: Generated,
    pub opts: GenOpts,
}

pub fn random_par(rng: &mut Rng) -> AzksParallelismConfig {
    fn opt(rng: &mut Rng) -> AzksParallelismOption {
        match rng.below(6) {
            0 => AzksParallelismOption::Static(2),
            1 => AzksParallelismOption::Static(3),
            2 => AzksParallelismOption::Static(8),
            3 => AzksParallelismOption::AvailableOr(32),
            _ => AzksParallelismOption::Disabled,
        }
    }
    AzksParallelismConfig {
        insertion: opt(rng),
        preload: opt(rng),
    }
}

impl HistCase {
    /// 75 % uncached + parallelism disabled (main sweep), 25 % cached and/or parallel
    pub fn random(rng: &mut Rng, max_batches: usize, max_universe: usize, max_batch: usize, force_hot: bool) -> Self {
        let cfg = if rng.chance(1, 2) { Cfg::Wa } else { Cfg::Exp };
        let (cache, par) = if rng.chance(3, 4) {
            (CacheOpt::None, AzksParallelismConfig::disabled())
        } else {
            let c = match rng.below(4) {
                0 => CacheOpt::None,
                1 => CacheOpt::Default,
                2 => CacheOpt::ShortLife,
                _ => CacheOpt::TinyMem,
            };
            (c, random_par(rng))
        };
        let mut opts = GenOpts::random(rng, max_universe, max_batches, max_batch);
        if force_hot {
            opts.flavor = Flavor::HotLabel;
            opts.batches = max_batches;
        }
        let hist = gen_history(rng, &opts);
        HistCase { cfg, cache, par, hist, opts }
    }

    /// few epochs with large insert batches
    pub fn big(rng: &mut Rng, n: usize) -> Self {
        let cfg = if rng.chance(1, 2) { Cfg::Wa } else { Cfg::Exp };
        let opts = GenOpts {
            universe: n,
            batches: 4,
            max_batch: n,
            flavor: Flavor::Mixed,
            p_resubmit: 100,
            p_dup_batch: 0,
            p_empty_batch: 0,
            p_empty_value: 10,
            allow_big: false,
        };
        let hist = gen_history(rng, &opts);
        let par = if rng.chance(1, 2) { AzksParallelismConfig::default() } else { AzksParallelismConfig::disabled() };
        let cache = if rng.chance(1, 2) { CacheOpt::Default } else { CacheOpt::None };
        HistCase { cfg, cache, par, hist, opts }
    }
}
