//! Deterministic PRNG (SplitMix64 seeding a xoshiro256**).  Every random choice of every
//! check comes from here so that `VERIF_SEED` + the per-case sub-seed replays a case.

#[derive(Clone, Debug)]
pub struct Rng {
    s: [u64; 4],
}

pub fn splitmix(x: &mut u64) -> u64 {
    *x = x.wrapping_add(0x9E37_79B9_7F4A_7C15);
    let mut z = *x;
    z = (z ^ (z >> 30)).wrapping_mul(0xBF58_476D_1CE4_E5B9);
    z = (z ^ (z >> 27)).wrapping_mul(0x94D0_49BB_1331_11EB);
    z ^ (z >> 31)
}

/// FNV-1a, used to derive sub-seeds from tags and to hash canonical forms of cases.
pub fn fnv(bytes: &[u8]) -> u64 {
    let mut h: u64 = 0xcbf2_9ce4_8422_2325;
    for b in bytes {
        h ^= *b as u64;
        h = h.wrapping_mul(0x0000_0100_0000_01B3);
    }
    h
}

impl Rng {
    pub fn new(seed: u64) -> Self {
        let mut x = seed ^ 0xA5A5_5A5A_1234_5678;
        let s = [
            splitmix(&mut x),
            splitmix(&mut x),
            splitmix(&mut x),
            splitmix(&mut x),
        ];
        Rng { s }
    }

    /// An independent generator derived from this seed and a tag (does not advance `self`).
    pub fn derive(seed: u64, tag: &str, idx: u64) -> Self {
        let mut x = seed ^ fnv(tag.as_bytes()).rotate_left(17) ^ idx.wrapping_mul(0x9E37_79B9_7F4A_7C15);
        Rng::new(splitmix(&mut x))
    }

    pub fn next_u64(&mut self) -> u64 {
        let result = self.s[1].wrapping_mul(5).rotate_left(7).wrapping_mul(9);
        let t = self.s[1] << 17;
        self.s[2] ^= self.s[0];
        self.s[3] ^= self.s[1];
        self.s[1] ^= self.s[2];
        self.s[0] ^= self.s[3];
        self.s[2] ^= t;
        self.s[3] = self.s[3].rotate_left(45);
        result
    }

    /// uniform in 0..n (n > 0)
    pub fn below(&mut self, n: u64) -> u64 {
        if n <= 1 {
            return 0;
        }
        // multiply-shift; bias is irrelevant here
        ((self.next_u64() as u128 * n as u128) >> 64) as u64
    }

    pub fn usize_below(&mut self, n: usize) -> usize {
        self.below(n as u64) as usize
    }

    /// uniform in lo..=hi
    pub fn range(&mut self, lo: u64, hi: u64) -> u64 {
        lo + self.below(hi - lo + 1)
    }

    /// true with probability num/den
    pub fn chance(&mut self, num: u64, den: u64) -> bool {
        self.below(den) < num
    }

    pub fn pick<'a, T>(&mut self, xs: &'a [T]) -> &'a T {
        &xs[self.usize_below(xs.len())]
    }

    pub fn shuffle<T>(&mut self, xs: &mut [T]) {
        for i in (1..xs.len()).rev() {
            let j = self.usize_below(i + 1);
            xs.swap(i, j);
        }
    }

    pub fn bytes(&mut self, n: usize) -> Vec<u8> {
        let mut v = Vec::with_capacity(n);
        while v.len() < n {
            let x = self.next_u64().to_le_bytes();
            let take = (n - v.len()).min(8);
            v.extend_from_slice(&x[..take]);
        }
        v
    }

    pub fn arr32(&mut self) -> [u8; 32] {
        let mut a = [0u8; 32];
        a.copy_from_slice(&self.bytes(32));
        a
    }
}
