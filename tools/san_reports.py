#!/usr/bin/env python3
"""tools/san_reports.py <tool> <log-file-or-glob-prefix> [--json]

Parses sanitizer / interpreter output (ThreadSanitizer, AddressSanitizer/LeakSanitizer, Miri, valgrind
memcheck) and classifies every report block:

  repo     at least one stack frame lies in the code under test (akd:: / akd_core:: / a path under
           /repo/akd*/src)                                   -> a violation of the property exercised
  harness  no frame in the code under test, but a frame of the harness (akd_verif::)
                                                             -> the monitor itself is at fault: inconclusive
  foreign  neither (tokio, dashmap, std, ...)                -> recorded, does not change the verdict

Reports are de-duplicated by (kind, first frame in the code under test or, failing that, the first
three symbolised frames with line numbers stripped).  Prints one JSON object.
"""
import glob, json, re, sys

REPO_PAT = re.compile(r"(\bakd::|\bakd_core::|<akd::|<akd_core::|/repo/akd/src|/repo/akd_core/src|akd/src/|akd_core/src/)")
HARNESS_PAT = re.compile(r"(akd_verif::|harness/src/)")

HEADS = {
    "tsan": re.compile(r"^WARNING: ThreadSanitizer: (.*?)( \(pid=\d+\))?\s*$"),
    "asan": re.compile(r"^==\d+==ERROR: (AddressSanitizer|LeakSanitizer): (.*)$"),
    "miri": re.compile(r"^error: (Undefined Behavior|unsupported operation|memory leaked|the evaluated program|deadlock|abnormal termination|post-monomorphization|resource exhaustion)(.*)$"),
    "memcheck": re.compile(r"^==\d+== (Invalid (read|write|free).*|Conditional jump or move depends on uninitialised.*|Use of uninitialised value.*|Mismatched free.*|Source and destination overlap.*|\d[\d,]* bytes in \d[\d,]* blocks are definitely lost.*)$"),
}


def frames_of(block):
    out = []
    for line in block:
        m = re.match(r"^\s*#\d+\s+(?:0x[0-9a-f]+\s+in\s+)?(.*)$", line)
        if m:
            out.append(m.group(1).strip())
            continue
        m = re.match(r"^==\d+==\s+(?:at|by) 0x[0-9A-Fa-f]+: (.*)$", line)
        if m:
            out.append(m.group(1).strip())
            continue
        m = re.match(r"^\s*(?:= note: )?(?:inside|which got called inside) `?(.*?)`? at (.*)$", line)
        if m:
            out.append(m.group(1).strip() + " " + m.group(2).strip())
            continue
        m = re.match(r"^\s*--> (.*)$", line)
        if m:
            out.append(m.group(1).strip())
    return out


def strip_lines(s):
    s = re.sub(r":\d+(:\d+)?", "", s)
    s = re.sub(r"::h[0-9a-f]{16}", "", s)
    s = re.sub(r"\(vcheck\+0x[0-9a-f]+\)", "", s)
    return s.strip()


def parse(tool, text):
    head = HEADS[tool]
    blocks, cur = [], None
    for line in text.splitlines():
        m = head.match(line)
        if m:
            if cur:
                blocks.append(cur)
            cur = {"kind": (m.group(2) if tool == "asan" else m.group(1)).strip()[:80], "lines": [line]}
        elif cur is not None:
            cur["lines"].append(line)
            if tool == "tsan" and line.startswith("SUMMARY: ThreadSanitizer"):
                blocks.append(cur)
                cur = None
            elif tool == "asan" and line.startswith("SUMMARY: "):
                blocks.append(cur)
                cur = None
            elif tool == "memcheck" and re.match(r"^==\d+==\s*$", line):
                blocks.append(cur)
                cur = None
    if cur:
        blocks.append(cur)
    return blocks


def classify(block):
    fr = frames_of(block["lines"])
    repo = [f for f in fr if REPO_PAT.search(f) and not HARNESS_PAT.search(f)]
    harness = [f for f in fr if HARNESS_PAT.search(f)]
    if repo:
        return "repo", strip_lines(repo[0]), fr
    if harness:
        return "harness", strip_lines(harness[0]), fr
    return "foreign", " | ".join(strip_lines(f) for f in fr[:3]), fr


def main():
    tool, target = sys.argv[1], sys.argv[2]
    files = sorted(glob.glob(target + "*")) if not target.endswith(".log") else sorted(glob.glob(target))
    if not files:
        files = sorted(glob.glob(target))
    text = ""
    for f in files:
        try:
            text += open(f, errors="replace").read() + "\n"
        except OSError:
            pass
    res = {"tool": tool, "files": len(files), "report_blocks": 0, "repo": {}, "harness": {}, "foreign": {}}
    first_repo = None
    for b in parse(tool, text):
        res["report_blocks"] += 1
        cls, key, fr = classify(b)
        k = b["kind"] + " @ " + key
        res[cls][k] = res[cls].get(k, 0) + 1
        if cls == "repo" and first_repo is None:
            first_repo = "\n".join(b["lines"][:60])
    res["distinct_repo"] = len(res["repo"])
    res["distinct_harness"] = len(res["harness"])
    res["distinct_foreign"] = len(res["foreign"])
    if first_repo:
        res["first_repo_report"] = first_repo
    print(json.dumps(res, indent=1))


if __name__ == "__main__":
    main()
