//! C01 — each epoch's root hash is determined by the publish history alone.
//! Oracle: reference model + from-scratch root recomputation (refhash), after every publish.

use crate::checks::histcase::HistCase;
use crate::common::*;
use crate::gen::{batch_json, history_json};
use crate::model::Applied;
use crate::mon::*;
use crate::rng::Rng;
use crate::with_cfg;
use crate::world::*;
use serde_json::json;

pub fn run(ctx: &Ctx) -> i32 {
    let mon = Mon::new();
    let n = ctx.tier.pick(4000, 20000);
    par_cases(ctx, &mon, "hist", n, |cc, rng, l| {
        let case = HistCase::random(rng, ctx.tier.pick(12, 40), ctx.tier.pick(12, 64), 8, false);
        run_case(cc, &case, rng, l);
    });
    // structured families + large batches
    let big = ctx.tier.pick(12, 64);
    par_cases(ctx, &mon, "big", big, |cc, rng, l| {
        let case = HistCase::big(rng, ctx.tier.pick(200, 1000));
        run_case(cc, &case, rng, l);
    });
    finish(
        ctx,
        &mon,
        Spec::new(
            "exploration",
            "seeded publish histories (insert/update/re-submission/duplicate/empty batches, awkward labels and values, both configurations, cached and uncached, several parallelism settings); after EVERY publish the returned (epoch, hash) and get_epoch_hash() are compared with a reference model and an independent blake3 recomputation of the canonical trie root. distinct = distinct history hash; non-trivial = history has >=1 update and (>=1 skipped unchanged entry or >=1 rejected/no-op batch)",
        )
        .assume("VRF output (label -> node label) is taken from akd (checked separately in C18)")
        .assume("blake3 crate is correct; reference trie written from akd_core/src/lib.rs docs")
        .need("root_comparisons", ctx.tier.pick(300, 3000))
        .need("noop_batches_checked", 5)
        .need("rejected_batches_checked", 5),
    )
}

fn run_case(cc: &CaseCtx, case: &HistCase, _rng: &mut Rng, l: &mut Local) {
    with_cfg!(case.cfg, TC, { block_on(run_case_t::<TC>(cc, case, l)) })
}

async fn run_case_t<TC: Configuration>(cc: &CaseCtx, case: &HistCase, l: &mut Local) {
    let mut w = match World::<TC>::new(case.cache, case.par, KeyVrf::hard_coded()).await {
        Ok(w) => w,
        Err(e) => {
            l.violation("C01:new-directory-failed", format!("Directory::new failed: {e}"), json!({"case": cc.id}));
            return;
        }
    };
    // empty directory
    let (r0, _) = w.ref_root(0).await;
    l.count("root_comparisons", 1);
    if w.published[0] != r0 {
        l.violation(
            "C01:empty-root",
            "root hash of the empty directory differs from the reference",
            json!({"cfg": case.cfg.name(), "got": hex::encode(w.published[0]), "want": hex::encode(r0)}),
        );
        return;
    }
    let mut n_updates = 0u64;
    let mut n_skipped = 0u64;
    let mut n_rej_or_noop = 0u64;
    for (bi, batch) in case.hist.batches.iter().enumerate() {
        l.eval(1);
        let before = (w.model.epoch, *w.published.last().unwrap());
        // count entries that re-submit the current value
        for (lab, v) in batch {
            match w.model.latest(lab, w.model.epoch) {
                Some(cur) if cur.value == *v => n_skipped += 1,
                Some(_) => n_updates += 1,
                None => {}
            }
        }
        w.db.ctl.reset_counters();
        let (applied, res) = w.publish(batch).await;
        let writes = w.db.ctl.n_writes();
        l.count("publishes", 1);
        let ctxj = || {
            json!({"cfg": case.cfg.name(), "cache": case.cache.name(), "par": par_name(&case.par),
                   "batch_index": bi, "batch": batch_json(batch), "history": history_json(&case.hist.batches[..=bi])})
        };
        match applied {
            Applied::Rejected => {
                n_rej_or_noop += 1;
                l.count("rejected_batches_checked", 1);
                if res.is_ok() {
                    l.violation("C01:duplicate-batch-accepted", "batch repeating a label returned Ok", ctxj());
                    return;
                }
                if writes != 0 {
                    l.violation("C01:duplicate-batch-wrote", format!("rejected batch caused {writes} storage writes"), ctxj());
                    return;
                }
            }
            Applied::NoOp => {
                n_rej_or_noop += 1;
                l.count("noop_batches_checked", 1);
                match &res {
                    Ok(eh) if (eh.0, eh.1) == before => {}
                    Ok(eh) => {
                        l.violation(
                            "C01:noop-changed-epoch-hash",
                            format!("re-submission-only batch returned ({}, {}) instead of the unchanged pair", eh.0, hx(&eh.1)),
                            ctxj(),
                        );
                        return;
                    }
                    Err(e) => {
                        l.violation("C01:noop-errored", format!("no-op batch returned Err: {e}"), ctxj());
                        return;
                    }
                }
                if writes != 0 {
                    l.violation("C01:noop-wrote", format!("no-op batch caused {writes} storage writes"), ctxj());
                    return;
                }
            }
            Applied::Epoch(e, _) => {
                l.count("effective_epochs", 1);
                let eh = match res {
                    Ok(eh) => eh,
                    Err(err) => {
                        l.violation("C01:publish-failed", format!("valid publish returned Err: {err}"), ctxj());
                        return;
                    }
                };
                let (want, want_nodes) = w.ref_root(e).await;
                l.count("root_comparisons", 1);
                if eh.0 != e {
                    l.violation(
                        "C01:epoch-mismatch",
                        format!("publish returned epoch {} but {} publishes changed a value", eh.0, e),
                        ctxj(),
                    );
                    return;
                }
                if eh.1 != want {
                    l.violation(
                        "C01:root-mismatch",
                        format!("epoch {e}: returned root {} != reference root {}", hx(&eh.1), hx(&want)),
                        ctxj(),
                    );
                    return;
                }
                // supplementary: node count of the record
                if let Ok(DbRecord::Azks(a)) = w.mgr.get_direct::<Azks>(&akd::append_only_zks::DEFAULT_AZKS_KEY).await {
                    l.count("num_nodes_compared", 1);
                    if a.num_nodes != want_nodes {
                        l.count("num_nodes_mismatch_diagnostic", 1);
                    }
                }
            }
        }
        // get_epoch_hash agrees with the model after every call
        l.count("epoch_hash_reads", 1);
        match w.dir.get_epoch_hash().await {
            Ok(eh) => {
                let want = (w.model.epoch, w.published.get(w.model.epoch as usize).copied());
                if eh.0 != want.0 || Some(eh.1) != want.1 {
                    l.violation(
                        "C01:get-epoch-hash-mismatch",
                        format!("get_epoch_hash() = ({}, {}) but the model is at epoch {}", eh.0, hx(&eh.1), want.0),
                        ctxj(),
                    );
                    return;
                }
            }
            Err(e) => {
                l.violation("C01:get-epoch-hash-failed", format!("get_epoch_hash failed: {e}"), ctxj());
                return;
            }
        }
    }
    let canon = format!("{:?}{:?}", case.cfg, case.hist.batches);
    l.case(canon.as_bytes(), n_updates >= 1 && (n_skipped >= 1 || n_rej_or_noop >= 1));
    l.sample(json!({"case": cc.id, "cfg": case.cfg.name(), "cache": case.cache.name(), "par": par_name(&case.par),
        "epochs": w.model.epoch, "history": history_json(&case.hist.batches[..case.hist.batches.len().min(4)])}));
}
